"""Shared runner for all property checks.

A property module (xv/props/cNN.py) defines

    ID, LEVEL, RULE, ASSUMPTIONS
    either  cases(tier, seed) -> iterable of JSON-able case dicts
            check_case(case)  -> dict(nontrivial=bool, outcome=str,
                                      violations=[(key, what)], ...)
    or      run(ctx)          -> fills ctx itself (BFS / scheduler checks)

The core distributes cases over a process pool (spawn), confirms every
violation by a second execution from a clean scratch root, handles the
known-findings file, writes the evidence file and prints the VIOLATION /
KNOWN-FINDING lines.
"""
import os
import sys
import copy
import json
import time
import random
import atexit
import shutil
import hashlib
import importlib
import itertools
import traceback
import multiprocessing as mp

VERIF = os.path.dirname(os.path.dirname(os.path.abspath(__file__)))
REPO = os.environ.get("XV_REPO", "/repo")
if REPO == "/repo":
    EVIDENCE_DIR = os.path.join(VERIF, "evidence")
    REPLAY_DIR = os.path.join(VERIF, "replays")
else:
    # a run against a scratch tree never touches the committed evidence
    _alt = os.environ.get("XV_ALT_OUT", "/dev/shm/xv-alt")
    EVIDENCE_DIR = os.path.join(_alt, "evidence")
    REPLAY_DIR = os.path.join(_alt, "replays")
KNOWN_FILE = os.path.join(VERIF, "known_findings.json")
NPROC = int(os.environ.get("XV_NPROC", "0")) or min(16, os.cpu_count() or 1)


class HarnessError(Exception):
    """The harness itself is broken (exit 2) - never a property violation."""


# --------------------------------------------------------------------------- #
# scratch


_SCRATCH = None


# set by the tools that re-run seeded changes, never by a registered check
FAILFAST = bool(os.environ.get("XV_FAILFAST"))


def scratch_root():
    """Per-process scratch directory on tmpfs, removed at exit."""
    global _SCRATCH
    if _SCRATCH is None or _SCRATCH[0] != os.getpid():
        base = os.environ.get("XV_SCRATCH")
        if not base:
            base = "/dev/shm" if os.path.isdir("/dev/shm") else None
        if base is None:
            import tempfile

            base = tempfile.gettempdir()
        path = os.path.join(base, "xv-%d" % os.getpid())
        shutil.rmtree(path, ignore_errors=True)
        os.makedirs(path, exist_ok=True)
        _SCRATCH = (os.getpid(), path)
        atexit.register(_rm_scratch, os.getpid(), path)
    return _SCRATCH[1]


def _rm_scratch(pid, path):
    if os.getpid() == pid:
        shutil.rmtree(path, ignore_errors=True)


def fresh_dir(name="w"):
    """An empty directory under the scratch root (recreated)."""
    path = os.path.join(scratch_root(), name)
    shutil.rmtree(path, ignore_errors=True)
    os.makedirs(path)
    return path


# --------------------------------------------------------------------------- #
# small helpers


def jhash(obj, n=12):
    s = json.dumps(obj, sort_keys=True, default=repr)
    return hashlib.sha1(s.encode()).hexdigest()[:n]


def pick(parts, k):
    """deterministic pseudo-random choice in range(k) from a hash of
    ``parts``: used to thin / rotate case dimensions without putting them in
    lock-step with each other"""
    return int(jhash(parts), 16) % k


def chunked(it, n):
    it = iter(it)
    while True:
        chunk = list(itertools.islice(it, n))
        if not chunk:
            return
        yield chunk


def load_known():
    if not os.path.exists(KNOWN_FILE):
        return {"findings": [], "fixed": []}
    with open(KNOWN_FILE) as f:
        return json.load(f)


def quiet():
    """Silence library chatter (progress bars, warnings, prints)."""
    import warnings

    warnings.simplefilter("ignore")
    os.environ.setdefault("TQDM_DISABLE", "1")
    try:  # progress bars off, whatever verbosity the library picks
        import tqdm

        if not getattr(tqdm.tqdm, "_xv_quiet", False):
            _init = tqdm.tqdm.__init__

            def __init__(self, *a, **k):
                k["disable"] = True
                return _init(self, *a, **k)

            tqdm.tqdm.__init__ = __init__
            tqdm.tqdm._xv_quiet = True
    except ImportError:
        pass


class Silence:
    """Context manager redirecting stdout/stderr python-level writes."""

    def __enter__(self):
        import io

        self._o, self._e = sys.stdout, sys.stderr
        sys.stdout = io.StringIO()
        sys.stderr = io.StringIO()
        return self

    def __exit__(self, *a):
        sys.stdout, sys.stderr = self._o, self._e


# --------------------------------------------------------------------------- #
# worker side


_MOD = None


def _worker_init(modname, env):
    global _MOD
    os.environ.update(env)
    quiet()
    sys.path.insert(0, VERIF)
    _MOD = importlib.import_module(modname)
    if hasattr(_MOD, "worker_init"):
        _MOD.worker_init()


def library_exception(pid, e):
    """Where did an exception come from?  One raised inside the library at a
    step the harness expects to succeed (it does on a correct tree) is a
    verdict about the library: -> (key, what).  Anything else is a harness
    bug: -> None."""
    tb = traceback.extract_tb(e.__traceback__)
    last_harness = max([i for i, f in enumerate(tb)
                        if f.filename.startswith(VERIF + "/")] or [-1])
    # (the innermost harness frame called into the library, and the
    # exception came out of that call)
    lib = [f for f in tb[last_harness + 1:]
           if f.filename.startswith(REPO + "/")]
    if not lib:
        return None
    where = lib[-1].name
    return ("%s|unexpected-exception:%s@%s" % (pid, type(e).__name__, where),
            "a step of the scenario that succeeds on a correct tree "
            "raised %r in %s (%s:%d)" % (
                e, where, os.path.basename(lib[-1].filename), lib[-1].lineno))


def private_cwd():
    """Every execution starts in an empty working directory of its own: a
    file the library drops into the current directory (instead of where it
    was told to) cannot collide with another worker's, and never lands in
    /verif."""
    os.chdir(fresh_dir("cwd"))


def _run_one(mod, case):
    private_cwd()
    try:
        # (a private copy: the library must not be able to change the case
        # the verdict is recorded against)
        res = mod.check_case(copy.deepcopy(case))
    except HarnessError:
        raise
    except Exception as e:
        verdict = library_exception(mod.ID, e)
        if verdict:
            return {"nontrivial": False, "outcome": "unexpected-exception",
                    "violations": [verdict]}
        raise HarnessError(
            "check_case crashed on %r\n%s" % (case, traceback.format_exc())
        )
    return res


UNSTABLE = "__verdict-depends-on-process-history__"


_HISTORY = []  # the cases this worker process has executed so far


def _worker_chunk(chunk):
    out = []
    for case in chunk:
        before = list(_HISTORY)
        _HISTORY.append(case)
        res = _run_one(_MOD, case)
        vio = res.get("violations") or []
        if vio and not os.environ.get("XV_NOCONFIRM"):
            # confirm by an immediate second execution
            res2 = _run_one(_MOD, case)
            keys2 = {k for k, _ in (res2.get("violations") or [])}
            confirmed = [(k, w) for k, w in vio if k in keys2]
            if len(confirmed) != len(vio):
                # the verdict depends on what this process did before (state
                # the library - or the harness - keeps between calls): it is
                # decided in fresh processes instead (see Ctx._fresh_verdicts)
                vio = [(UNSTABLE, "%r vs %r" % (vio, res2.get("violations")),
                        before[-1500:])]
        out.append(
            (
                jhash(case),
                bool(res.get("nontrivial")),
                res.get("outcome"),
                vio,
                res.get("counts") or {},
            )
        )
    return chunk, out


class LibraryRaised:
    """result of a pool call that ended in a library exception"""

    def __init__(self, key, what, fname, payload):
        self.key, self.what = key, what
        self.fname, self.payload = fname, payload


def _call(mod, fname, payload):
    private_cwd()
    try:
        return getattr(mod, fname)(copy.deepcopy(payload))
    except HarnessError:
        raise
    except Exception as e:
        verdict = library_exception(mod.ID, e)
        if not verdict:
            raise
        # confirm by an immediate second execution
        private_cwd()
        try:
            getattr(mod, fname)(copy.deepcopy(payload))
        except Exception as e2:
            if library_exception(mod.ID, e2) == verdict:
                return LibraryRaised(verdict[0], verdict[1], fname, payload)
        raise HarnessError("non-reproducible exception in %s(%r): %r"
                           % (fname, payload, e))


def _worker_call(args):
    fname, payload = args
    return _call(_MOD, fname, payload)


# --------------------------------------------------------------------------- #
# a process pool that notices when a worker dies

_DONE = object()
STALL_S = float(os.environ.get("XV_STALL_S", "1800"))


class WorkerDied(Exception):
    def __init__(self, in_flight):
        Exception.__init__(self, "a worker process died")
        self.in_flight = in_flight  # indices of the items not yet returned


class XPool:
    def __init__(self, n, modname, env):
        from concurrent.futures import ProcessPoolExecutor

        self.n = n
        self.ex = ProcessPoolExecutor(
            n, mp_context=mp.get_context("spawn"),
            initializer=_worker_init, initargs=(modname, env))

    def imap_unordered(self, func, items):
        """yields (index, result); raises WorkerDied(indices in flight)"""
        from concurrent.futures import wait, FIRST_COMPLETED
        from concurrent.futures.process import BrokenProcessPool

        pending = {}
        nxt = 0
        window = 4 * self.n
        try:
            while nxt < len(items) or pending:
                while nxt < len(items) and len(pending) < window:
                    pending[self.ex.submit(func, items[nxt])] = nxt
                    nxt += 1
                done, _ = wait(list(pending), timeout=STALL_S,
                               return_when=FIRST_COMPLETED)
                if not done:
                    raise HarnessError(
                        "no scenario finished within %.0f s (a hang); in "
                        "flight: %r" % (STALL_S, [items[i] for i in
                                                  pending.values()][:3]))
                for fut in done:
                    idx = pending.pop(fut)
                    try:
                        res = fut.result()
                    except BrokenProcessPool:
                        pending[fut] = idx
                        raise
                    yield idx, res
        except BrokenProcessPool:
            raise WorkerDied(sorted(pending.values()))

    def shutdown(self, graceful):
        procs = list((getattr(self.ex, "_processes", None) or {}).values())
        try:
            self.ex.shutdown(wait=graceful, cancel_futures=True)
        except Exception:
            pass
        if not graceful:
            for p_ in procs:
                try:
                    p_.terminate()
                except Exception:
                    pass


# --------------------------------------------------------------------------- #
# context


class Ctx:
    def __init__(self, mod, tier, seed):
        self.mod = mod
        self.pid = mod.ID
        self.tier = tier
        self.seed = seed
        self.t0 = time.time()
        self.evaluations = 0
        self.nontrivial = set()
        self.nontrivial_count = None  # for spaces too large to keep as a set
        self.outcomes = {}
        self.violations = {}  # key -> (what, case)
        self.samples = []
        self.counts = {}
        self.coverage_extra = {}
        self.assumptions = list(getattr(mod, "ASSUMPTIONS", []))
        self.exhaustive = True
        self._pool = None
        self.rng = random.Random(seed)

    # -- pool ------------------------------------------------------------- #
    def pool(self):
        if self._pool is None:
            env = {
                "PYTHONPATH": os.environ.get("PYTHONPATH", ""),
                "XV_TIER": self.tier,
                "XV_SEED": str(self.seed),
            }
            self._pool = XPool(NPROC, self.mod.__name__, env)
        return self._pool

    def close(self, graceful=False):
        if self._pool is not None:
            self._pool.shutdown(graceful)
            self._pool = None

    def _robust(self, func, items):
        """imap_unordered over the pool that survives a worker dying: the
        item(s) that kill their worker - twice, each alone in a fresh process
        - are reported as violations, everything else is run normally"""
        items = list(items)
        while items:
            if FAILFAST and self._new_violation():
                self.exhaustive = False
                return
            pool = self.pool()
            try:
                for idx, res in pool.imap_unordered(func, items):
                    items[idx] = _DONE
                    yield res
                    if FAILFAST and self._new_violation():
                        # (only used when a seeded change is re-run: the
                        # first confirmed violation settles the verdict)
                        self.exhaustive = False
                        self.close()
                        return
                return
            except WorkerDied as wd:
                suspects = [items[i] for i in wd.in_flight]
                for i in wd.in_flight:
                    items[i] = _DONE
                items = [it for it in items if it is not _DONE]
                self.close()
                if ("%s|process-died" % self.pid) in self.violations:
                    # (already established and reported once; the scenarios
                    # in flight are not narrowed down again)
                    self.coverage_extra["scenarios_lost_to_dead_workers"] = \
                        self.coverage_extra.get(
                            "scenarios_lost_to_dead_workers", 0) + len(suspects)
                    continue
                for res in self._isolate(func, suspects):
                    yield res

    def _isolate(self, func, suspects):
        """run each suspect alone in its own process (16 at a time)"""
        from concurrent.futures import ThreadPoolExecutor

        def alone(item):
            for attempt in (0, 1):
                p1 = XPool(1, self.mod.__name__, self.pool_env())
                try:
                    for _, res in p1.imap_unordered(func, [item]):
                        return ("ok", res)
                except WorkerDied:
                    pass
                finally:
                    p1.shutdown(False)
            return ("died", item)

        with ThreadPoolExecutor(min(NPROC, max(1, len(suspects)))) as tp:
            outs = list(tp.map(alone, suspects))
        for status, val in outs:
            if status == "ok":
                yield val
                continue
            # a chunk of cases: narrow down to the single cases
            if func is _worker_chunk and len(val) > 1:
                for res in self._isolate(func, [[c] for c in val]):
                    yield res
                continue
            self.evaluations += 1
            case = val[0] if func is _worker_chunk else {
                "_call": val[0], "payload": val[1]}
            self.violation(
                "%s|process-died" % self.pid,
                "the worker process died (twice, alone in a fresh process) "
                "while running this scenario; it completes on a correct tree",
                {"_died": True, "func": func.__name__, "item": case})

    def pool_env(self):
        return {"PYTHONPATH": os.environ.get("PYTHONPATH", ""),
                "XV_TIER": self.tier, "XV_SEED": str(self.seed)}

    def map_unordered(self, fname, payloads, chunksize=1):
        """Call mod.<fname>(payload) for every payload in the pool."""
        if NPROC == 1 or os.environ.get("XV_INLINE"):
            it = (_call(self.mod, fname, p) for p in payloads)
        else:
            it = self._robust(_worker_call, [(fname, p) for p in payloads])
        for r in it:
            if isinstance(r, LibraryRaised):
                # the library raised where a correct tree does not
                self.evaluations += 1
                self.violation(r.key, r.what,
                               {"_call": r.fname, "payload": r.payload})
                continue
            yield r

    # -- bookkeeping ------------------------------------------------------ #
    def violation(self, key, what, case):
        if key not in self.violations:
            self.violations[key] = (what, case)

    def _new_violation(self):
        """(fail-fast mode) is there a violation that is not a listed finding?"""
        if not hasattr(self, "_known_keys"):
            self._known_keys = {f["key"] for f in
                                load_known().get("findings", [])
                                if f.get("property") == self.pid}
        return any(k not in self._known_keys for k in self.violations)

    def note(self, case_hash, nontrivial, outcome, counts=None):
        self.evaluations += 1
        if nontrivial:
            self.nontrivial.add(case_hash)
        if outcome is not None:
            self.outcomes[outcome] = self.outcomes.get(outcome, 0) + 1
        for k, v in (counts or {}).items():
            self.counts[k] = self.counts.get(k, 0) + v

    def sample(self, case, limit=5):
        if len(self.samples) < limit:
            self.samples.append(case)

    # -- enumeration driver ---------------------------------------------- #
    def run_cases(self, cases, chunk=None):
        mod = self.mod
        cases = list(cases)
        # seed only permutes the visiting order (results must not depend on it)
        self.rng.shuffle(cases)
        for c in cases[:3]:
            self.sample(c)
        if chunk is None:
            chunk = max(1, min(200, len(cases) // (NPROC * 8) or 1))
        chunks = list(chunked(cases, chunk))
        if NPROC == 1 or os.environ.get("XV_INLINE"):
            global _MOD
            _MOD = mod
            if hasattr(mod, "worker_init"):
                mod.worker_init()
            results = map(_worker_chunk, chunks)
        else:
            results = self._robust(_worker_chunk, chunks)
        unstable = []
        for ch, out in results:
            for case, (h, nt, oc, vio, counts) in zip(ch, out):
                if vio and vio[0][0] == UNSTABLE:
                    unstable.append((case, vio[0][1], vio[0][2]))
                    continue
                self.note(h, nt, oc, counts)
                for key, what in vio:
                    self.violation(key, what, case)
        if unstable:
            self._fresh_verdicts(unstable)

    def _fresh_verdicts(self, unstable):
        """Cases whose verdict differed between two executions in the same
        worker: each is run as the first thing two fresh processes do; if the
        two agree that is the verdict (and what a replay shows), otherwise
        the harness does not own the nondeterminism and gives up."""
        from concurrent.futures import ThreadPoolExecutor

        env = dict(self.pool_env(), XV_NOCONFIRM="1")

        def fresh(case):
            p1 = XPool(1, self.mod.__name__, env)
            try:
                for _, res in p1.imap_unordered(_worker_chunk, [[case]]):
                    return res[1][0]
            finally:
                p1.shutdown(False)

        def twice(item):
            return fresh(item[0]), fresh(item[0])

        with ThreadPoolExecutor(min(NPROC, len(unstable))) as tp:
            outs = list(tp.map(twice, unstable[:64]))
        for (case, seen, hist), (r1, r2) in zip(unstable, outs):
            k1 = sorted(k for k, _ in r1[3])
            k2 = sorted(k for k, _ in r2[3])
            if k1 != k2:
                raise HarnessError(
                    "non-reproducible verdict on %r: in the worker %s; in two "
                    "fresh processes %r vs %r" % (case, seen, r1[3], r2[3]))
            h, nt, oc, vio, counts = r1
            self.note(h, nt, oc, counts)
            for key, what in vio:
                self.violation(key, what, case)
        self.coverage_extra["history_dependent_verdicts"] = {
            "cases": len(unstable), "decided_in_fresh_processes": len(outs),
            "explanation": "the verdict of these cases changed between two "
            "executions in one worker process (state kept between calls); "
            "each was decided by running it first thing in two fresh "
            "processes"}
        if unstable:
            # a correct tree gives every case the same verdict every time
            case, seen, hist = unstable[0]
            self.violation(
                "%s|verdict-depends-on-process-history" % self.pid,
                "the same scenario, run twice in one process after other "
                "scenarios, was judged differently (%d scenarios; first: %s) "
                "- something is kept between calls" % (
                    len(unstable), seen[:300]),
                {"_unstable": True, "case": case, "history": hist})

    # -- finish ----------------------------------------------------------- #
    def finish(self):
        self.close(graceful=True)
        known = load_known()
        open_keys = {
            f["key"]: f for f in known.get("findings", [])
            if f.get("property") == self.pid
        }
        nvio = 0
        lines = []
        os.makedirs(os.path.join(REPLAY_DIR, self.pid), exist_ok=True)
        for key, (what, case) in sorted(self.violations.items()):
            if key in open_keys:
                lines.append(
                    "KNOWN-FINDING: property=%s %s [%s]"
                    % (self.pid, open_keys[key].get("what", what), key)
                )
                continue
            nvio += 1
            path = os.path.join(
                REPLAY_DIR, self.pid, "%s.json" % jhash([key, case])
            )
            with open(path, "w") as f:
                json.dump(
                    {"property": self.pid, "key": key, "what": what,
                     "case": case}, f, indent=1, default=repr, sort_keys=True,
                )
            lines.append("# %s: %s" % (key, what))
            lines.append("VIOLATION property=%s replay=%s" % (self.pid, path))
        level = self.mod.LEVEL
        cov = {
            "evaluations": int(self.evaluations),
            "distinct_nontrivial": (self.nontrivial_count
                                    if self.nontrivial_count is not None
                                    else len(self.nontrivial)),
            "rule": getattr(self.mod, "RULE", ""),
            "samples": self.samples or ["<none>"],
            "exhaustive": bool(self.exhaustive),
            "distinct_outcomes": len(self.outcomes),
            "outcomes": dict(
                sorted(self.outcomes.items(), key=lambda kv: -kv[1])[:12]
            ),
            "counts": self.counts,
            "known_findings_seen": sorted(
                k for k in self.violations if k in open_keys
            ),
        }
        cov.update(self.coverage_extra)
        ev = {
            "property_id": self.pid,
            "tier": self.tier,
            "seed": int(self.seed),
            "level": level,
            "coverage": cov,
            "assumptions": self.assumptions,
            "wall_s": round(time.time() - self.t0, 2),
            "violations": nvio,
        }
        os.makedirs(EVIDENCE_DIR, exist_ok=True)
        tmp = os.path.join(EVIDENCE_DIR, ".%s.json.tmp" % self.pid)
        with open(tmp, "w") as f:
            json.dump(ev, f, indent=1, default=repr, sort_keys=True)
        os.replace(tmp, os.path.join(EVIDENCE_DIR, "%s.json" % self.pid))
        for ln in lines:
            print(ln)
        print(
            "%s %s: evaluations=%d nontrivial=%d outcomes=%d violations=%d "
            "known=%d wall=%.1fs"
            % (self.pid, self.tier, self.evaluations,
               cov["distinct_nontrivial"],
               len(self.outcomes), nvio, len(cov["known_findings_seen"]),
               ev["wall_s"])
        )
        return 1 if nvio else 0


def load_module(pid):
    sys.path.insert(0, VERIF)
    return importlib.import_module("xv.props.%s" % pid.lower())


def run_check(pid, tier, seed):
    quiet()
    mod = load_module(pid)
    ctx = Ctx(mod, tier, seed)
    try:
        if hasattr(mod, "run"):
            mod.run(ctx)
        else:
            ctx.run_cases(mod.cases(tier, seed))
        return ctx.finish()
    except HarnessError as e:
        ctx.close()
        print("HARNESS-ERROR %s: %s" % (pid, e), file=sys.stderr)
        return 2
    finally:
        ctx.close()


def run_replay(path):
    quiet()
    with open(path) as f:
        art = json.load(f)
    mod = load_module(art["property"])
    if hasattr(mod, "worker_init"):
        mod.worker_init()
    if isinstance(art["case"], dict) and art["case"].get("_died"):
        # (run in a child process: the scenario kills the interpreter)
        item = art["case"]["item"]
        func = globals()[art["case"]["func"]]
        if func is _worker_call:
            item = (item["_call"], item["payload"])
        else:
            item = [item]
        env = {"PYTHONPATH": os.environ.get("PYTHONPATH", ""),
               "XV_TIER": "quick", "XV_SEED": "0"}
        p1 = XPool(1, mod.__name__, env)
        try:
            list(p1.imap_unordered(func, [item]))
            vio = []
        except WorkerDied:
            vio = [(art["key"], "the worker process died")]
        finally:
            p1.shutdown(False)
    elif isinstance(art["case"], dict) and art["case"].get("_unstable"):
        # the scenarios the worker had executed before, then the scenario
        # twice: judged differently = something is kept between calls
        for c in art["case"]["history"]:
            try:
                _run_one(mod, c)
            except HarnessError:
                pass
        v1 = _run_one(mod, art["case"]["case"]).get("violations") or []
        v2 = _run_one(mod, art["case"]["case"]).get("violations") or []
        k1, k2 = sorted(k for k, _ in v1), sorted(k for k, _ in v2)
        print("first execution: %r\nsecond execution: %r" % (k1, k2))
        vio = [(art["key"], "judged %r, then %r" % (k1, k2))] if k1 != k2 \
            else []
    elif isinstance(art["case"], dict) and "_call" in art["case"]:
        r = _call(mod, art["case"]["_call"], art["case"]["payload"])
        if isinstance(r, LibraryRaised):
            vio = [(r.key, r.what)]
        elif isinstance(r, dict) and r.get("violations"):
            vio = [(v[0], v[1]) for v in r["violations"]]
        else:
            vio = []
    elif hasattr(mod, "replay"):
        vio = mod.replay(art["case"])
    else:
        vio = mod.check_case(art["case"]).get("violations") or []
    for key, what in vio:
        print("# %s: %s" % (key, what))
    if any(k in (art["key"], "*") for k, _ in vio):
        print("VIOLATION property=%s replay=%s" % (art["property"], path))
        return 1
    print("replay: violation %r not reproduced" % art["key"])
    return 0
