"""sched - stateless exploration of the interleavings of file operations of a
few actor threads (DESIGN 2.6).

Actors are real threads running real library entry points.  Exactly one
thread runs at a time; a thread stops *before* every visible seam operation
(fsseam calls ``Exec.point``) and hands control back to the explorer, which
picks the next thread.  ``Explorer`` enumerates all choice sequences depth
first, pruned by sleep sets over a static dependence relation, optionally
bounded by a number of preemptions.
"""
import os
import time
import threading

from . import fsseam


class Deadlock(Exception):
    pass


class Divergence(RuntimeError):
    """a recorded schedule cannot be followed on this tree"""


CREATE_KINDS = ("open", "mkdir", "unlink", "rmdir", "rename", "link")


def dependent(a, b):
    """static dependence of two pending ops (kind, path, mut, extra)"""
    ka, pa, ma, xa = a
    kb, pb, mb, xb = b
    if ka == "sleep" or kb == "sleep":
        # a sleeper is enabled by any mutation
        other = b if ka == "sleep" else a
        return bool(other[2]) or other[0] == "sleep" and False
    if not (ma or mb):
        return False
    pathsa = {pa} | ({xa} if xa else set())
    pathsb = {pb} | ({xb} if xb else set())
    if pathsa & pathsb:
        return True
    # directory listing vs entry creation / removal in that directory
    # (a stat of the directory sees its modification time, which changes
    # with every entry created or removed)
    if ka in ("list", "stat") and mb and kb in CREATE_KINDS:
        if any(os.path.dirname(p) == pa for p in pathsb):
            return True
    if kb in ("list", "stat") and ma and ka in CREATE_KINDS:
        if any(os.path.dirname(p) == pb for p in pathsa):
            return True
    # removing / renaming a directory vs anything below it
    for (k1, ps1, ps2) in ((ka, pathsa, pathsb), (kb, pathsb, pathsa)):
        if k1 in ("rmdir", "rename", "mkdir"):
            for p in ps1:
                if any(q.startswith(p + os.sep) for q in ps2):
                    return True
    return False


class Sharing:
    """Which operations must be scheduling points.

    An operation only needs to be visible to the scheduler if it can be
    dependent on an operation of *another* actor: it touches a path that
    another actor also touches and that somebody mutates; or it creates /
    removes a directory entry in a directory another actor lists; or it lists
    a directory in which another actor creates / removes entries.  The
    knowledge is accumulated over all executions (including the invisible
    operations); whenever it grows during an exploration, the exploration is
    restarted with the larger visible set, so the final exploration ran with
    a set under which every invisible operation was private to its actor.
    """

    def __init__(self):
        self.touch = {}    # path -> set(aid)
        self.mutated = set()
        self.listed = {}   # dir -> set(aid)
        self.entries = {}  # dir -> set(aid) creating/removing entries
        self.removed = {}  # dir or file -> set(aid) removing / renaming it
        self.frozen = None
        self.grew = False

    def freeze(self):
        self.frozen = (
            {p: set(a) for p, a in self.touch.items()}, set(self.mutated),
            {p: set(a) for p, a in self.listed.items()},
            {p: set(a) for p, a in self.entries.items()},
            {p: set(a) for p, a in self.removed.items()})
        self.grew = False

    def _add(self, table, key, aid):
        s = table.setdefault(key, set())
        if aid not in s:
            s.add(aid)
            self.grew = True

    def record(self, aid, kind, rel, dst, mut, entry):
        for p in (rel, dst):
            if p:
                self._add(self.touch, p, aid)
                if mut and p not in self.mutated:
                    self.mutated.add(p)
                    self.grew = True
        if kind in ("list", "stat"):
            self._add(self.listed, rel, aid)
        if kind in ("rmdir", "rename") and rel:
            self._add(self.removed, rel, aid)
        if entry:
            for p in (rel, dst):
                if p:
                    self._add(self.entries, os.path.dirname(p), aid)

    def visible(self, aid, kind, rel, dst, mut, entry):
        if self.frozen is None or getattr(self, "all_visible", False):
            # (all_visible: the actors share more than the directory - e.g.
            # one library object - so every traced operation is a point)
            return True
        touch, mutated, listed, entries, removed = self.frozen
        for p in (rel, dst):
            if p and p in mutated and (touch.get(p, set()) - {aid}):
                return True
        # a directory that another actor removes / renames vs anything done
        # below it; and removing / renaming a directory in which another
        # actor creates or removes entries
        for p in (rel, dst):
            q = os.path.dirname(p) if p else ""
            while q:
                if removed.get(q, set()) - {aid}:
                    return True
                q = os.path.dirname(q)
        if kind in ("rmdir", "rename") and rel and (
                entries.get(rel, set()) - {aid}):
            return True
        if entry:
            for p in (rel, dst):
                if p and (listed.get(os.path.dirname(p), set()) - {aid}):
                    return True
        if kind in ("list", "stat") and (entries.get(rel, set()) - {aid}):
            return True
        return False

    def export(self):
        t, m, l, e, r = self.frozen
        return {"touch": {p: sorted(a) for p, a in t.items()},
                "mutated": sorted(m),
                "listed": {p: sorted(a) for p, a in l.items()},
                "entries": {p: sorted(a) for p, a in e.items()},
                "removed": {p: sorted(a) for p, a in r.items()}}

    def load(self, d):
        self.frozen = ({p: set(a) for p, a in d["touch"].items()},
                       set(d["mutated"]),
                       {p: set(a) for p, a in d["listed"].items()},
                       {p: set(a) for p, a in d["entries"].items()},
                       {p: set(a) for p, a in d.get("removed", {}).items()})

    def export_all(self):
        return {"touch": {p: sorted(a) for p, a in self.touch.items()},
                "mutated": sorted(self.mutated),
                "listed": {p: sorted(a) for p, a in self.listed.items()},
                "entries": {p: sorted(a) for p, a in self.entries.items()},
                "removed": {p: sorted(a) for p, a in self.removed.items()}}

    def load_all(self, d):
        self.touch = {p: set(a) for p, a in d["touch"].items()}
        self.mutated = set(d["mutated"])
        self.listed = {p: set(a) for p, a in d["listed"].items()}
        self.entries = {p: set(a) for p, a in d["entries"].items()}
        self.removed = {p: set(a) for p, a in d.get("removed", {}).items()}

    @staticmethod
    def merge(tables):
        out = {"touch": {}, "mutated": set(), "listed": {}, "entries": {},
               "removed": {}}
        for t in tables:
            out["mutated"] |= set(t["mutated"])
            for k in ("touch", "listed", "entries", "removed"):
                for p, a in t.get(k, {}).items():
                    out[k].setdefault(p, set()).update(a)
        return {"touch": {p: sorted(a) for p, a in out["touch"].items()},
                "mutated": sorted(out["mutated"]),
                "listed": {p: sorted(a) for p, a in out["listed"].items()},
                "entries": {p: sorted(a) for p, a in out["entries"].items()},
                "removed": {p: sorted(a) for p, a in out["removed"].items()}}

    def size(self):
        return (len(self.touch), len(self.mutated),
                sum(len(v) for v in self.listed.values()),
                sum(len(v) for v in self.entries.values()),
                sum(len(v) for v in self.removed.values()))


class Actor:
    def __init__(self, aid, name, fn):
        self.aid = aid
        self.name = name
        self.fn = fn
        self.sem = threading.Semaphore(0)
        self.pending = None  # (kind, path, mut, extra)
        self.done = False
        self.result = None
        self.exc = None
        self.sleep_since = None  # mutation counter when it went to sleep
        self.thread = None
        self.nops = 0


class Exec:
    """one controlled execution"""

    def __init__(self, root, actors, sharing, horizon=400, write_chunks=1,
                 observer=None, norm=None):
        self.root = root
        self.actors = [Actor(i, n, f) for i, (n, f) in enumerate(actors)]
        self.sharing = sharing
        self.horizon = horizon
        self.write_chunks = write_chunks
        self.main_sem = threading.Semaphore(0)
        self.unwinding = False
        self.trace = []  # (aid, kind, path, mut)
        self.mutations = 0
        self.by_thread = {}
        self.observer = observer
        # path normaliser (run-varying temporary names -> stable names)
        self.norm = norm or (lambda rel, aid: rel)
        self.obs = []  # observer output per trace step
        self.livelock = False

    # -- called from actor threads (through fsseam) -------------------------- #
    def owns_thread(self):
        return threading.get_ident() in self.by_thread

    def point(self, kind, rel, mut, info):
        actor = self.by_thread.get(threading.get_ident())
        if actor is None or self.unwinding:
            return
        rel = self.norm(rel, actor.aid)
        dst = info.get("dst")
        if dst:
            dst = self.norm(dst, actor.aid)
        entry = (kind in ("unlink", "rmdir", "mkdir", "rename", "link")
                 or (kind == "open" and mut and not info.get("existed")))
        # bookkeeping used to decide which operations need to be scheduling
        # points at all (see Sharing)
        self.sharing.record(actor.aid, kind, rel, dst, mut, entry)
        if not self.sharing.visible(actor.aid, kind, rel, dst, mut, entry):
            return
        actor.pending = (kind, rel, bool(mut), dst)
        self._park(actor)

    def sleep_point(self):
        actor = self.by_thread.get(threading.get_ident())
        if actor is None or self.unwinding:
            return
        actor.pending = ("sleep", "", False, None)
        actor.sleep_since = self.mutations
        self._park(actor)
        actor.sleep_since = None

    def now(self):
        return len(self.trace)

    def _park(self, actor):
        self.main_sem.release()
        actor.sem.acquire()
        if self.unwinding:
            raise fsseam.Unwind()

    # -- explorer side ------------------------------------------------------- #
    def _body(self, actor):
        self.by_thread[threading.get_ident()] = actor
        actor.sem.acquire()
        try:
            if not self.unwinding:
                actor.result = actor.fn(self)
        except fsseam.Unwind:
            actor.exc = "unwound"
        except BaseException as e:  # the outcome of this actor
            actor.exc = "%s: %s" % (type(e).__name__, str(e)[:120])
        finally:
            actor.done = True
            actor.pending = None
            self.main_sem.release()

    def start(self):
        for a in self.actors:
            a.thread = threading.Thread(target=self._body, args=(a,),
                                        daemon=True)
            a.thread.start()
        # run each actor up to its first visible point
        for a in self.actors:
            a.sem.release()
            self.main_sem.acquire()

    def enabled(self):
        out = []
        for a in self.actors:
            if a.done or a.pending is None:
                continue
            if a.pending[0] == "sleep" and a.sleep_since is not None \
                    and self.mutations <= a.sleep_since:
                continue
            out.append(a.aid)
        return out

    def step(self, aid):
        a = self.actors[aid]
        op = a.pending
        if self.observer is not None:
            self.obs.append(self.observer(self, a, op))
        else:
            self.obs.append(None)
        self.trace.append((aid,) + op[:3])
        if op[2]:
            self.mutations += 1
        a.nops += 1
        if a.nops > self.horizon:
            self.livelock = True
            return False
        a.pending = None
        a.sem.release()
        self.main_sem.acquire()
        return True

    def all_done(self):
        return all(a.done for a in self.actors)

    def unwind(self):
        """abandon: make every parked thread raise at its seam point"""
        self.unwinding = True
        for a in self.actors:
            if not a.done:
                a.sem.release()
                self.main_sem.acquire()
        for a in self.actors:
            a.thread.join(5)

    def finish(self):
        for a in self.actors:
            a.thread.join(5)


class Explorer:
    """depth-first enumeration of schedules with sleep sets"""

    def __init__(self, make_exec, check, max_preemptions=None,
                 max_execs=None, determinism_samples=20):
        self.make_exec = make_exec  # () -> (Exec, seam) fresh, tree restored
        self.check = check  # (Exec) -> outcome key (str); may record
        self.max_preemptions = max_preemptions
        self.max_execs = max_execs
        self.determinism_samples = determinism_samples
        self.execs = 0
        self.blocked = 0
        self.transitions = 0
        self.capped = False
        self.deadlocks = 0
        self.livelocks = 0
        self.outcomes = {}
        self.max_depth = 0
        self.first_traces = {}

    def run_one(self, choices):
        """execute following ``choices`` (list of aids) then stop; returns the
        Exec parked at the node after the prefix"""
        ex, seam = self.make_exec()
        seam.__enter__()
        try:
            ex.start()
            for i, aid in enumerate(choices):
                en = ex.enabled()
                if aid not in en:
                    raise Divergence(
                        "replay divergence at step %d: actor %d not enabled "
                        "(enabled %r, trace %r)" % (i, aid, en, ex.trace[-5:]))
                ex.step(aid)
        except BaseException:
            ex.unwind()
            seam.__exit__(None, None, None)
            raise
        return ex, seam

    @staticmethod
    def _snap(stack):
        # a frozen copy of the path to a node: no alternatives left above it,
        # but the sleep-set information (explored siblings) is preserved
        return [dict(ops=dict(n["ops"]), sleep=dict(n["sleep"]),
                     done=list(n["done"]), cands=list(n["done"]) + [n["choice"]],
                     choice=n["choice"], preempt=n["preempt"], last=n["last"])
                for n in stack]

    def explore(self, initial_stack=None, split_depth=None):
        """enumerate all schedules below ``initial_stack`` (default: the
        root).  With ``split_depth`` the search stops at that depth and the
        nodes reached are collected in ``self.frontier`` for other workers."""
        # stack of nodes: dict(ops={aid: op}, sleep={aid: op}, done=[aid],
        #                      cands=[aid], choice=aid, preempt=int, last=aid)
        stack = list(initial_stack or [])
        self.frontier = []
        while True:
            if (self.max_execs is not None and self.execs >= self.max_execs) \
                    or getattr(self, "stop", False) \
                    or (getattr(self, "deadline", None) is not None
                        and self.execs + self.blocked >= 1
                        and time.time() > self.deadline):
                self.capped = True
                return
            choices = [n["choice"] for n in stack]
            ex, seam = self.run_one(choices)
            abandoned = False
            try:
                # extend with default choices
                while True:
                    if ex.all_done():
                        break
                    en = ex.enabled()
                    if not en:
                        self.deadlocks += 1
                        ex.deadlocked = True
                        break
                    depth = len(ex.trace)
                    if depth < len(stack):
                        raise RuntimeError("internal: depth < stack")
                    if stack:
                        par = stack[-1]
                        chosen_op = par["ops"][par["choice"]]
                        sleep = {
                            a: op for a, op in list(par["sleep"].items())
                            + [(d, par["ops"][d]) for d in par["done"]]
                            if a != par["choice"]
                            and not dependent(op, chosen_op)
                        }
                        last = par["choice"]
                        preempt = par["preempt"]
                    else:
                        sleep, last, preempt = {}, None, 0
                    ops = {a: ex.actors[a].pending for a in en}
                    # a sleeping entry is only valid while the actor still has
                    # the same pending op
                    sleep = {a: op for a, op in sleep.items()
                             if a in ops and ops[a] == op}
                    cands = [a for a in self._order(en, last)
                             if a not in sleep]
                    if self.max_preemptions is not None:
                        cands = [a for a in cands if self._cost(
                            a, last, en, preempt) <= self.max_preemptions]
                    node = {"ops": ops, "sleep": sleep, "done": [],
                            "cands": cands, "last": last, "preempt": preempt}
                    if not cands:
                        self.blocked += 1
                        abandoned = True
                        break
                    node["choice"] = cands[0]
                    node["preempt"] = self._cost(cands[0], last, en, preempt)
                    stack.append(node)
                    self.transitions += 1
                    if not ex.step(cands[0]):
                        self.livelocks += 1
                        break
                    if (split_depth is not None and len(stack) >= split_depth
                            and not ex.all_done()):
                        self.frontier.append(self._snap(stack))
                        abandoned = True
                        break
                self.max_depth = max(self.max_depth, len(ex.trace))
                if abandoned or getattr(ex, "deadlocked", False) or ex.livelock:
                    ex.unwind()
                else:
                    ex.finish()
            finally:
                seam.__exit__(None, None, None)
            if not abandoned:
                self.execs += 1
                key = self.check(ex)
                self.outcomes[key] = self.outcomes.get(key, 0) + 1
                if key not in self.first_traces:
                    self.first_traces[key] = list(ex.trace)
            # backtrack
            while stack:
                n = stack[-1]
                n["done"].append(n["choice"])
                rest = [a for a in n["cands"] if a not in n["done"]]
                if rest:
                    n["choice"] = rest[0]
                    en = list(n["ops"])
                    base = stack[-2]["preempt"] if len(stack) > 1 else 0
                    n["preempt"] = self._cost(rest[0], n["last"], en, base)
                    self.transitions += 1
                    break
                stack.pop()
            if not stack:
                return

    @staticmethod
    def _order(enabled, last):
        # canonical order: the running thread first if still enabled
        return ([last] if last in enabled else []) + [
            a for a in sorted(enabled) if a != last]

    @staticmethod
    def _cost(a, last, enabled, preempt):
        if last is not None and last in enabled and a != last:
            return preempt + 1
        return preempt
