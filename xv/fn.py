"""The swept function used by every check (DESIGN 2.2).

Functions are generated with ``exec`` into a namespace whose ``__name__`` is
``__main__`` so that cloudpickle pickles them *by value*, exactly like a
function typed into a user's notebook: a process that only knows the crop's
name and directory can load and run them.

The result is an injective (up to a 48-bit hash) encoding of precisely the
keyword arguments received, in the requested result kind, and every call is
logged: to ``builtins._xv_log`` (a list) when that exists in the calling
process, else to the O_APPEND file named by ``$XV_CALLLOG``.
"""
import builtins

_HELPERS = r'''
def _xv_norm(v):
    if hasattr(v, "tolist"):
        v = v.tolist()
    if isinstance(v, bool):
        return repr(v)
    if isinstance(v, (int, float)):
        f = float(v)
        if f == int(f) and abs(f) < 1e15:
            return repr(int(f))
        return repr(f)
    if isinstance(v, (list, tuple)):
        return "[" + ",".join(_xv_norm(x) for x in v) + "]"
    return repr(v)


def _xv_enc(kw):
    return ";".join("%s=%s" % (k, _xv_norm(kw[k])) for k in sorted(kw))


def _xv_num(enc, version=0):
    import hashlib
    h = hashlib.sha1(enc.encode()).digest()
    return float(int.from_bytes(h[:5], "big") * 4 + version)


def _xv_value(kind, enc, version=0):
    num = _xv_num(enc, version)
    if kind == "num":
        return num
    if kind == "none":
        # a function that is run for its side effects
        return None
    if kind == "int":
        return int(num)
    if kind == "bool":
        return bool(int(num // 4) % 2)
    if kind == "str":
        return "<" + enc + ">v%d" % version
    if kind == "npstr":
        # a numpy string scalar (what indexing a numpy array of labels gives)
        import numpy as np
        return np.str_("<" + enc + ">v%d" % version)
    if kind == "tuple2":
        return (num, num + 0.5)
    if kind == "tuple3":
        return (num, "<" + enc + ">", num + 0.25)
    if kind == "tuple3n":
        return (num, num + 0.5, num + 0.25)
    if kind == "numbool":
        return (num, bool(int(num // 4) % 2))
    if kind == "array":
        import numpy as np
        return np.array([num, num + 1.0, num + 2.0])
    if kind == "iarray":
        # an integer-typed array (a missing placeholder cannot be an integer)
        import numpy as np
        return np.array([int(num) % 1000 + 1, int(num) % 7 + 1, 3],
                        dtype=np.int64)
    if kind == "mat23":
        # a non-square matrix among several outputs
        import numpy as np
        return (np.array([[num, num + 1.0, num + 2.0],
                          [num + 3.0, num + 4.0, num + 5.0]]), num + 0.5)
    if kind == "cube213":
        # a single non-cubic three-dimensional output
        import numpy as np
        return (num + np.arange(6.0)).reshape(2, 1, 3)
    if kind == "array2":
        import numpy as np
        return np.array([[num, num + 1.0], [num + 2.0, num + 3.0]])
    if kind == "numarr":
        import numpy as np
        return (num, np.array([num + 1.0, num + 2.0]))
    if kind == "arrarr":
        import numpy as np
        return (np.array([num, num + 1.0, num + 2.0]),
                np.array([[num, num + 1.0], [num + 2.0, num + 3.0]]))
    if kind == "arr3x2":
        import numpy as np
        return (np.array([num, num + 1.0, num + 2.0]),
                np.array([num + 10.0, num + 11.0, num + 12.0]))
    if kind == "list":
        return [[num, num + 1.0], [num + 2.0, num + 3.0]]
    if kind == "list1":
        # a list with a single entry (it stays a list)
        return [num]
    if kind == "mixtuple":
        # entries of different types (they keep their types)
        return (num, "<" + enc + ">", int(num) % 97, True)
    if kind == "dict":
        return {"v": num, "w": num + 0.5}
    if kind == "dataset":
        import xarray as xr
        return xr.Dataset({"v": ((), num), "w": (("t",), [num + 1.0, num + 2.0])},
                          coords={"t": [10, 20]})
    if kind == "dataset_nd":
        # a coordinate that is not a dimension and depends on the arguments
        import xarray as xr
        return xr.Dataset({"v": ((), num), "w": (("t",), [num + 1.0, num + 2.0])},
                          coords={"t": [10, 20], "norm": num + 0.25})
    if kind == "dataset_sa":
        # the result carries a scalar coordinate named like the (in
        # alphabetical order) first argument, holding another value - what
        # ``table.sel(a=a, method="nearest")`` leaves behind
        import xarray as xr
        return xr.Dataset({"v": ((), num), "w": (("t",), [num + 1.0, num + 2.0])},
                          coords={"t": [10, 20],
                                  enc.split("=")[0]: num % 7 + 0.125})
    if kind == "dataset_tv":
        # the internal coordinate's labels depend on the arguments (same
        # length, other values)
        import xarray as xr
        t0 = int(num) % 5
        return xr.Dataset({"v": ((), num), "w": (("t",), [num + 1.0, num + 2.0])},
                          coords={"t": [t0, t0 + 7]})
    if kind == "dataset_nc":
        # internal dimension without coordinate (to be named by a constant)
        import xarray as xr
        return xr.Dataset({"v": ((), num), "w": (("t",), [num + 1.0, num + 2.0])})
    if kind == "dataarray":
        import xarray as xr
        return xr.DataArray([num, num + 1.0], dims=("t",),
                            coords={"t": [10, 20]}, name="v")
    raise ValueError(kind)


def _xv_call(name, kind, version, kw):
    import builtins, os
    enc = _xv_enc(kw)
    if kind == "tstr":
        # also encodes the *types* received (1, 1.0 and True are different
        # requests although they compare equal)
        enc = enc + "|" + ",".join(
            "%s:%s" % (k, type(kw[k]).__name__) for k in sorted(kw))
        kind = "str"
    log = getattr(builtins, "_xv_log", None)
    if log is not None:
        log.append((name, enc))
    else:
        path = os.environ.get("XV_CALLLOG")
        if path:
            fd = os.open(path, os.O_WRONLY | os.O_APPEND | os.O_CREAT, 0o644)
            try:
                os.write(fd, (name + "\t" + enc + "\n").encode())
            finally:
                os.close(fd)
    fail = getattr(builtins, "_xv_fail", None)
    if fail is None:
        fpath = os.environ.get("XV_FAILSET")
        if fpath and os.path.exists(fpath):
            with open(fpath) as f:
                fail = set(f.read().split("\n"))
    if fail and enc in fail:
        exc = getattr(builtins, "_xv_fail_exc", None)
        if exc == "StopIteration":
            raise StopIteration("xv-fail: " + enc)
        if exc == "KeyboardInterrupt":
            raise KeyboardInterrupt("xv-fail: " + enc)
        raise RuntimeError("xv-fail: " + enc)
    unp = getattr(builtins, "_xv_unpick", None)
    if unp and enc in unp:
        # a result that cannot be pickled: the grow fails while *writing*
        return (x for x in (1,))
    return _xv_value(kind, enc, version)
'''

_NS = {"__name__": "__main__"}
exec(_HELPERS, _NS)

enc = _NS["_xv_enc"]
norm = _NS["_xv_norm"]
num = _NS["_xv_num"]
value = _NS["_xv_value"]


def make_fn(args, kind="num", name="xvfn", version=0, defaults=None,
            delay=None, varkw=(), kwonly=()):
    """Build ``def name(a, b, k=<default>)`` returning the encoding of its
    keyword arguments as result ``kind``.  Arguments named in ``varkw`` are
    not in the signature: they arrive through ``**kw``."""
    defaults = defaults or {}
    parts = []
    star = False
    for a in args:
        if a in varkw:
            continue
        if a in kwonly and not star:
            # (the arguments named in ``kwonly`` - they must come last - are
            # keyword-only parameters)
            parts.append("*")
            star = True
        if a in defaults:
            parts.append("%s=%r" % (a, defaults[a]))
        else:
            parts.append(a)
    if varkw:
        parts.append("**_kw")
    pre = ""
    if delay:
        # (argument, value, seconds): that setting is slow, so that a real
        # pool completes tasks out of submission order
        arg, val, secs = delay
        test = ("%s in %r" % (arg, tuple(val)) if isinstance(val, (list, tuple))
                else "%s == %r" % (arg, val))
        pre = "    if %s:\n        import time\n        time.sleep(%r)\n" % (
            test, secs)
    src = "def {name}({sig}):\n{pre}    return _xv_call({name!r}, {kind!r}, {version!r}, dict({kws}))\n".format(
        name=name, sig=", ".join(parts), kind=kind, version=version, pre=pre,
        kws=", ".join(["%s=%s" % (a, a) for a in args if a not in varkw]
                      + (["**_kw"] if varkw else [])),
    )
    ns = dict(_NS)
    exec(src, ns)
    fn = ns[name]
    fn._xv = {"args": tuple(args), "kind": kind, "version": version,
              "name": name}
    return fn


def tenc(kw):
    return enc(kw) + "|" + ",".join(
        "%s:%s" % (k, type(kw[k]).__name__) for k in sorted(kw))


def expected(kind, kw, version=0):
    if kind == "tstr":
        return value("str", tenc(kw), version)
    return value(kind, enc(kw), version)


class CallLog:
    """In-process call log (list on ``builtins``) as a context manager."""

    def __enter__(self):
        self._old = getattr(builtins, "_xv_log", None)
        builtins._xv_log = self.calls = []
        return self

    def __exit__(self, *a):
        if self._old is None:
            del builtins._xv_log
        else:
            builtins._xv_log = self._old

    def encs(self, name=None):
        return [e for n, e in self.calls if name is None or n == name]


class UnpicklableSet:
    """settings for which the function returns an unpicklable result"""

    def __init__(self, encs):
        self.encs = set(encs)

    def __enter__(self):
        builtins._xv_unpick = self.encs
        return self

    def __exit__(self, *a):
        del builtins._xv_unpick


class FailSet:
    def __init__(self, encs, exc=None):
        self.encs = set(encs)
        self.exc = exc

    def __enter__(self):
        self._old = getattr(builtins, "_xv_fail", None)
        builtins._xv_fail = self.encs
        builtins._xv_fail_exc = self.exc
        return self

    def __exit__(self, *a):
        builtins._xv_fail_exc = None
        if self._old is None:
            del builtins._xv_fail
        else:
            builtins._xv_fail = self._old
