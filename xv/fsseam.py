"""fsseam - owning the file system and the clock (DESIGN 2.1).

Interposition is on standard-library names only.  While a ``Seam`` is
installed, every operation on a path under ``seam.root`` goes through
``Seam.op``: it is a scheduling point (schedule mode), a fault position
(fault mode), a kill position (kill mode) and, if it mutates, an entry of the
mutation log (all modes).  Paths outside the root are untouched.
"""
import os
import re
import io
import weakref
import sys
import stat as _stat
import time
import errno
import shutil
import signal
import hashlib
import builtins

_orig = {
    "open": builtins.open,
    "io_open": io.open,
    "mkdir": os.mkdir,
    "rmdir": os.rmdir,
    "unlink": os.unlink,
    "remove": os.remove,
    "rename": os.rename,
    "replace": os.replace,
    "link": os.link,
    "os_open": os.open,
    "symlink": os.symlink,
    "stat": os.stat,
    "lstat": os.lstat,
    "scandir": os.scandir,
    "listdir": os.listdir,
    "access": os.access,
    "truncate": os.truncate,
    "sleep": time.sleep,
}

ACTIVE = None  # the installed Seam


def _abs(path):
    try:
        p = os.fspath(path)
    except TypeError:
        return None
    if isinstance(p, bytes):
        p = os.fsdecode(p)
    if not isinstance(p, str):
        return None
    return os.path.abspath(p)


def _lexists(p):
    try:
        _orig["lstat"](p)
        return True
    except OSError:
        return False


class Unwind(BaseException):
    """Raised inside parked actor threads to abandon an execution."""


class Seam:
    def __init__(self, root, mode="record", fault_at=None, kill_at=None,
                 sched=None, detect_opaque=False, write_buffer=None,
                 kill_at_mut=None, write_chunks=None, fault_kinds=None,
                 list_order=None):
        self.root = os.path.abspath(root)
        # the order in which a directory's entries are handed out is the file
        # system's choice: None = as it comes, "asc" / "desc" = by name
        self.list_order = list_order
        self.mode = mode
        self.fault_at = fault_at
        self.kill_at = kill_at
        self.kill_at_mut = kill_at_mut
        # with fault_kinds, fault_at counts only operations of those kinds
        self.fault_kinds = fault_kinds
        self.neligible = 0
        self.nmut = 0
        self.sched = sched
        self.detect_opaque = detect_opaque
        self.write_buffer = write_buffer
        self.write_chunks = write_chunks
        self.log = []  # mutation log
        self.trace = []  # every traced op (kind, relpath, mutating)
        self.n = 0
        self.shadow = None
        self.faulted = None
        # open traced files, so that a rename moves their recorded path with
        # the inode (a write through a handle opened under the old name lands
        # in the file now visible under the new one)
        self.open_files = weakref.WeakSet()

    # -- helpers ------------------------------------------------------------ #
    def inside(self, p):
        return p is not None and (
            p == self.root or p.startswith(self.root + os.sep))

    def rel(self, p):
        return os.path.relpath(p, self.root)

    def op(self, kind, path, thunk, mut, **info):
        """Run one traced operation."""
        idx = self.n
        self.n += 1
        rel = self.rel(path)
        if self.sched is not None:
            self.sched.point(kind, rel, mut, info)
        if self.detect_opaque and mut:
            self._scan_opaque()
        if self.fault_kinds is not None:
            fidx = self.neligible if kind in self.fault_kinds else None
            if kind in self.fault_kinds:
                self.neligible += 1
        else:
            fidx = idx
        if self.fault_at is not None and fidx == self.fault_at:
            self.faulted = (kind, rel)
            self.trace.append((kind, rel, mut, "FAULT"))
            raise OSError(errno.EIO, "xv injected I/O error", path)
        res = thunk()
        self.trace.append((kind, rel, mut))
        if mut:
            entry = {"op": kind, "path": rel, "i": idx}
            entry.update(info)
            if kind == "write":
                # record what really reached the file
                entry["data"] = bytes(info["data"][: res if res is not None
                                                   else len(info["data"])])
            self.log.append(entry)
            if self.detect_opaque:
                self._shadow_update()
        if mut:
            self.nmut += 1
            if self.kill_at_mut is not None and self.nmut == self.kill_at_mut:
                os.kill(os.getpid(), signal.SIGKILL)
        if self.kill_at is not None and idx == self.kill_at:
            os.kill(os.getpid(), signal.SIGKILL)
        return res

    # -- opaque writers (HDF5 ...) ------------------------------------------ #
    def _tree(self):
        out = {}
        for dp, dns, fns in os.walk(self.root):
            for f in fns:
                p = os.path.join(dp, f)
                try:
                    with _orig["open"](p, "rb") as fh:
                        out[self.rel(p)] = hashlib.sha1(fh.read()).digest()
                except OSError:
                    pass
        return out

    def _shadow_update(self):
        self.shadow = self._tree()

    def _scan_opaque(self):
        if self.shadow is None:
            self.shadow = self._tree()
            return
        now = self._tree()
        for rel, h in now.items():
            if self.shadow.get(rel) != h:
                with _orig["open"](os.path.join(self.root, rel), "rb") as fh:
                    data = fh.read()
                self.log.append({"op": "opaque_write", "path": rel,
                                 "data": data, "i": -1})
        for rel in self.shadow:
            if rel not in now:
                self.log.append({"op": "unlink", "path": rel, "i": -1,
                                 "opaque": True})
        self.shadow = now

    def finish(self):
        """Call at the end of a recorded workload."""
        if self.detect_opaque:
            self._scan_opaque()

    # -- install / uninstall ------------------------------------------------ #
    def __enter__(self):
        global ACTIVE
        if ACTIVE is not None:
            raise RuntimeError("a Seam is already installed")
        ACTIVE = self
        if self.detect_opaque:
            self._shadow_update()
        _install()
        return self

    def __exit__(self, *a):
        global ACTIVE
        try:
            if a[0] is None:
                self.finish()
        finally:
            _uninstall()
            ACTIVE = None


# --------------------------------------------------------------------------- #
# traced raw file


class TracedFileIO(io.FileIO):
    def __init__(self, file, mode="r", closefd=True, opener=None):
        seam = ACTIVE
        self._xv_seam = seam
        self._xv_closed = False
        if isinstance(file, int):
            # an already open descriptor (os.open / mkstemp, whose creation
            # of the file was traced there): only its writes are traced
            self._xv_path = _fd_path(file)
            super().__init__(file, mode, closefd=closefd)
            self._xv_append = "a" in mode
            self._xv_chunk = None
            seam.open_files.add(self)
            return
        self._xv_path = path = _abs(file)
        existed = _lexists(path)
        mut = any(c in mode for c in "wxa+")
        trunc = "w" in mode
        creates = (not existed) and any(c in mode for c in "wxa")
        sup = super()

        def thunk():
            sup.__init__(file, mode, closefd=closefd, opener=opener)

        # an open that neither creates nor truncates changes nothing on disk
        seam.op("open", path, thunk, mut and (trunc or creates),
                mode=mode, existed=existed, trunc=trunc)
        self._xv_append = "a" in mode
        self._xv_chunk = None
        seam.open_files.add(self)

    def write(self, b):
        seam = self._xv_seam
        if seam is not ACTIVE:
            return super().write(b)
        data = bytes(b)
        if seam.write_chunks and seam.write_chunks > 1:
            # legal raw-I/O behaviour: a short write; the buffered layer
            # retries with the remainder, so a result is published in pieces
            if self._xv_chunk is None:
                self._xv_chunk = max(1, -(-len(data) // seam.write_chunks))
            data = data[: self._xv_chunk]
            b = data
        if self._xv_append:
            off = os.fstat(self.fileno()).st_size
        else:
            off = os.lseek(self.fileno(), 0, os.SEEK_CUR)
        sup = super()
        return seam.op("write", self._xv_path, lambda: sup.write(b), True,
                       off=off, data=data)

    def readinto(self, b):
        seam = self._xv_seam
        if seam is not ACTIVE:
            return super().readinto(b)
        sup = super()
        return seam.op("read", self._xv_path, lambda: sup.readinto(b), False)

    def readall(self):
        seam = self._xv_seam
        if seam is not ACTIVE:
            return super().readall()
        sup = super()
        return seam.op("read", self._xv_path, lambda: sup.readall(), False)

    def read(self, size=-1):
        seam = self._xv_seam
        if seam is not ACTIVE:
            return super().read(size)
        sup = super()
        return seam.op("read", self._xv_path, lambda: sup.read(size), False)

    def truncate(self, size=None):
        seam = self._xv_seam
        if seam is not ACTIVE:
            return super().truncate(size)
        if size is None:
            size = self.tell()
        sup = super()
        return seam.op("truncate", self._xv_path,
                       lambda: sup.truncate(size), True, size=size)

    def close(self):
        if self._xv_closed or self.closed:
            return super().close()
        self._xv_closed = True
        seam = self._xv_seam
        if seam is not ACTIVE:
            return super().close()
        sup = super()
        try:
            return seam.op("close", self._xv_path, lambda: sup.close(), False)
        except Unwind:
            sup.close()
            raise


def _traced_open(file, mode="r", buffering=-1, encoding=None, errors=None,
                 newline=None, closefd=True, opener=None):
    seam = ACTIVE
    path = _fd_path(file) if isinstance(file, int) else _abs(file)
    if seam is None or not seam.inside(path) or opener is not None:
        return _orig["open"](file, mode, buffering, encoding, errors, newline,
                             closefd, opener)
    # the same layering io.open builds in C, around a traced raw file
    modes = set(mode)
    text = "b" not in modes
    binary = "b" in modes
    if text and binary:
        raise ValueError("can't have text and binary mode at once")
    creating = "x" in modes
    reading = "r" in modes
    writing = "w" in modes
    appending = "a" in modes
    updating = "+" in modes
    rawmode = ((creating and "x" or "") + (reading and "r" or "")
               + (writing and "w" or "") + (appending and "a" or "")
               + (updating and "+" or ""))
    raw = TracedFileIO(file, rawmode, closefd=closefd)
    result = raw
    try:
        line_buffering = False
        if buffering == 1 or (buffering < 0 and raw.isatty()):
            buffering = -1
            line_buffering = True
        if buffering < 0:
            buffering = seam.write_buffer or io.DEFAULT_BUFFER_SIZE
        if buffering == 0:
            if binary:
                return result
            raise ValueError("can't have unbuffered text I/O")
        if updating:
            buffer = io.BufferedRandom(raw, buffering)
        elif creating or writing or appending:
            buffer = io.BufferedWriter(raw, buffering)
        elif reading:
            buffer = io.BufferedReader(raw, buffering)
        else:
            raise ValueError("unknown mode: %r" % mode)
        result = buffer
        if binary:
            return result
        result = io.TextIOWrapper(buffer, encoding, errors, newline,
                                  line_buffering)
        result.mode = mode
        return result
    except BaseException:
        result.close()
        raise


def _fd_path(fd):
    try:
        return os.readlink("/proc/self/fd/%d" % fd)
    except OSError:
        return None


def _os_open(path, flags, mode=0o777, *, dir_fd=None):
    seam = ACTIVE
    p = None if isinstance(path, int) else _abs(path)
    if seam is None or not seam.inside(p) or dir_fd is not None:
        return _orig["os_open"](path, flags, mode, dir_fd=dir_fd)
    existed = _lexists(p)
    trunc = bool(flags & os.O_TRUNC)
    creates = (not existed) and bool(flags & os.O_CREAT)
    return seam.op("open", p,
                   lambda: _orig["os_open"](path, flags, mode), 
                   trunc or creates, mode="os.open", existed=existed,
                   trunc=trunc)


def _wrap1(name, kind, mut):
    orig = _orig[name]

    def wrapper(path, *a, **kw):
        seam = ACTIVE
        p = None if isinstance(path, int) else _abs(path)
        if (seam is None or not seam.inside(p) or kw.get("dir_fd") is not None):
            return orig(path, *a, **kw)
        return seam.op(kind, p, lambda: orig(path, *a, **kw), mut)

    wrapper.__name__ = name
    return wrapper


def _wrap2(name, kind):
    orig = _orig[name]

    def wrapper(src, dst, *a, **kw):
        seam = ACTIVE
        ps, pd = _abs(src), _abs(dst)
        if seam is None or not (seam.inside(ps) or seam.inside(pd)):
            return orig(src, dst, *a, **kw)
        res = seam.op(kind, ps, lambda: orig(src, dst, *a, **kw), True,
                      dst=seam.rel(pd))
        for f in list(seam.open_files):
            if f._xv_path == ps and not f._xv_closed:
                f._xv_path = pd
        return res

    wrapper.__name__ = name
    return wrapper


def _scandir(path="."):
    seam = ACTIVE
    p = None if isinstance(path, int) else _abs(path)
    if seam is None or not seam.inside(p):
        return _orig["scandir"](path)
    # materialise the listing at the scheduling point
    def thunk():
        with _orig["scandir"](path) as it:
            return list(it)
    entries = seam.op("list", p, thunk, False)
    if seam.list_order:
        entries = sorted(entries, key=lambda e: e.name,
                         reverse=seam.list_order == "desc")
    return _ScandirResult(entries)


class _ScandirResult:
    def __init__(self, entries):
        self._it = iter(entries)

    def __iter__(self):
        return self

    def __next__(self):
        return next(self._it)

    def __enter__(self):
        return self

    def __exit__(self, *a):
        return False

    def close(self):
        pass


def _sleep(t):
    seam = ACTIVE
    if seam is not None and seam.sched is not None and seam.sched.owns_thread():
        seam.sched.sleep_point()
        return
    if seam is not None and seam.mode in ("record", "fault"):
        raise RuntimeError("time.sleep in a sequential recorded workload")
    return _orig["sleep"](t)


_saved_rm = None


def _install():
    global _saved_rm
    builtins.open = _traced_open
    io.open = _traced_open
    os.mkdir = _wrap1("mkdir", "mkdir", True)
    os.rmdir = _wrap1("rmdir", "rmdir", True)
    os.unlink = _wrap1("unlink", "unlink", True)
    os.remove = _wrap1("remove", "unlink", True)
    os.truncate = _wrap1("truncate", "truncate_path", True)
    os.rename = _wrap2("rename", "rename")
    os.replace = _wrap2("replace", "rename")
    os.open = _os_open
    os.link = _wrap2("link", "link")
    os.symlink = _wrap2("symlink", "link")
    os.stat = _wrap1("stat", "stat", False)
    os.lstat = _wrap1("lstat", "stat", False)
    os.access = _wrap1("access", "stat", False)
    _ld = _wrap1("listdir", "list", False)

    def _listdir(path=".", *a, **kw):
        res = _ld(path, *a, **kw)
        seam = ACTIVE
        if seam is not None and seam.list_order and not isinstance(path, int) \
                and seam.inside(_abs(path)):
            res = sorted(res, reverse=seam.list_order == "desc")
        return res

    os.listdir = _listdir
    os.scandir = _scandir
    time.sleep = _sleep
    _saved_rm = (shutil._use_fd_functions,
                 getattr(shutil, "_USE_CP_SENDFILE", False))
    shutil._use_fd_functions = False
    # a file copy (shutil.copyfile, or shutil.move across devices) goes
    # through the traced file objects in blocks, not through sendfile on the
    # raw descriptors: copying is not atomic and must not look as if it were
    shutil._USE_CP_SENDFILE = False


def _uninstall():
    builtins.open = _orig["open"]
    io.open = _orig["io_open"]
    for k in ("link", "symlink", "mkdir", "rmdir", "unlink", "remove", "rename", "replace",
              "stat", "lstat", "scandir", "listdir", "access", "truncate"):
        setattr(os, k, _orig[k])
    os.open = _orig["os_open"]
    time.sleep = _orig["sleep"]
    shutil._use_fd_functions, shutil._USE_CP_SENDFILE = _saved_rm


# --------------------------------------------------------------------------- #
# trees: snapshot / restore / hash / replaying a mutation log


# --------------------------------------------------------------------------- #
# names
#
# Inside a crop directory the files that carry meaning have fixed names;
# anything else there (temporary files of writers, whatever they are called)
# is recognised as "not one of the official names", so that the checks do
# not depend on how an implementation names its temporaries.

_OFFICIAL = re.compile(
    r"^(xyz-settings\.jbdmp|xyz-function\.clpkl|xyz-batch-\d+\.jbdmp|"
    r"xyz-result-\d+\.jbdmp|batches|results)$")
_STEM = re.compile(
    r"^(xyz-(?:settings|function|batch-\d+|result-\d+)\.(?:jbdmp|clpkl))")


def norm_rel(rel, tag=""):
    """relative path with a non-official file name inside a crop directory
    replaced by '<official stem>~tmp<tag>'; every other path unchanged"""
    parts = rel.split(os.sep)
    if parts[0] == os.pardir:
        # the other end of a rename or copy that starts outside the traced
        # tree (a temporary made in $TMPDIR, say): its name varies per run
        return "<outside>~tmp" + tag
    if not any(p.startswith(".xyz-") for p in parts[:-1]):
        return rel
    base = parts[-1]
    if _OFFICIAL.match(base):
        return rel
    m = _STEM.match(base)
    return os.sep.join(parts[:-1] + [(m.group(1) if m else "") + "~tmp" + tag])


def is_temporary(rel):
    return norm_rel(rel) != rel


def snapshot(root):
    """{relpath: bytes} for files, {relpath: None} for directories."""
    snap = {}
    for dp, dns, fns in os.walk(root):
        for d in dns:
            snap[os.path.relpath(os.path.join(dp, d), root)] = None
        for f in fns:
            p = os.path.join(dp, f)
            with _orig["open"](p, "rb") as fh:
                snap[os.path.relpath(p, root)] = fh.read()
    return snap


def restore(root, snap):
    shutil.rmtree(root, ignore_errors=True)
    os.makedirs(root)
    for rel in sorted(snap):
        p = os.path.join(root, rel)
        if snap[rel] is None:
            os.makedirs(p, exist_ok=True)
    for rel in sorted(snap):
        data = snap[rel]
        if data is not None:
            p = os.path.join(root, rel)
            os.makedirs(os.path.dirname(p), exist_ok=True)
            with _orig["open"](p, "wb") as fh:
                fh.write(data)


def snap_hash(snap):
    h = hashlib.sha1()
    for rel in sorted(snap):
        h.update(rel.encode())
        h.update(b"\0D" if snap[rel] is None else b"\0F" + snap[rel])
        h.update(b"\1")
    return h.hexdigest()[:16]


def tree_hash(root):
    return snap_hash(snapshot(root))


def apply_op(snap, op, cut=None):
    """Apply one mutation-log entry to an in-memory snapshot (dict).  ``cut``
    = number of bytes of a write that reached the disk (torn write)."""
    kind, rel = op["op"], op["path"]
    if kind == "open":
        if op.get("trunc") or not op.get("existed"):
            if op.get("trunc") or rel not in snap:
                snap[rel] = b""
    elif kind == "write":
        data = op["data"] if cut is None else op["data"][:cut]
        old = snap.get(rel) or b""
        off = op["off"]
        if len(old) < off:
            old = old + b"\0" * (off - len(old))
        snap[rel] = old[:off] + data + old[off + len(data):]
    elif kind == "opaque_write":
        snap[rel] = op["data"] if cut is None else op["data"][:cut]
    elif kind in ("truncate", "truncate_path"):
        old = snap.get(rel) or b""
        size = op.get("size", 0)
        snap[rel] = old[:size] + b"\0" * max(0, size - len(old))
    elif kind == "mkdir":
        snap[rel] = None
    elif kind == "rmdir":
        snap.pop(rel, None)
    elif kind == "unlink":
        snap.pop(rel, None)
    elif kind == "rename":
        dst = op["dst"]
        if rel in snap:
            val = snap.pop(rel)
            if val is None:
                # directory: move children
                pref = rel + os.sep
                for k in [k for k in snap if k.startswith(pref)]:
                    snap[dst + os.sep + k[len(pref):]] = snap.pop(k)
            snap[dst] = val
    elif kind == "link":
        # (a second name for the same content; later writes through either
        # name are not followed - nothing in the library does that)
        if rel in snap:
            snap[op["dst"]] = snap[rel]
    else:
        raise ValueError("unknown op %r" % kind)
    return snap


def replay_log(snap, log):
    snap = dict(snap)
    for op in log:
        apply_op(snap, op)
    return snap
