"""C09 - a partial reap shows finished batches exactly and everything else as
missing."""
import os
import itertools

from xv import core, fsseam, cmp, fn as xfn
from xv.props.c07 import factorise, vals

ID = "C09"
LEVEL = "exploration"
RULE = (
    "crops with B batches for every (N <= 2B+1, batchsize | num_batches) "
    "giving that B, every non-empty proper subset of finished batches, "
    "shuffle off/on, reaped raw / as Dataset / as DataFrame, result kinds "
    "number, float and integer array, bool, str, tuple, Dataset; each case: refused without "
    "allow_incomplete, partial reap position by position, tree untouched, "
    "then grow the rest and full reap; plus crops of 11, 12, 100 and 101 "
    "batches with first / last / odd / all-but-one finished; non-trivial = every case (each has "
    ">= 1 finished and >= 1 missing batch)"
)
ASSUMPTIONS = [
    "which settings belong to a finished batch is read from the call log of "
    "growing exactly those batches",
    "a missing slot is NaN / None / arrays or tuples of NaN / an all-NaN "
    "Dataset, with the shape of a real result",
]

FORMS = [("raw", "num"), ("raw", "array"), ("raw", "bool"), ("raw", "str"),
         ("raw", "tuple2"), ("raw", "dataset"), ("raw", "iarray"),
         ("raw", "mat23"), ("raw", "cube213"), ("ds", "mat23"),
         ("ds", "cube213"), ("ds", "dict"), ("raw", "dict"),
         ("ds", "iarray"), ("ds", "num"), ("ds", "array"),
         ("ds", "bool"), ("ds", "str"), ("ds", "dataset"), ("df", "num"),
         ("df", "str"),
         # crops of a Runner (reaped into its description of the outputs)
         ("runner", "num"), ("runner", "str"), ("runner", "bool"),
         ("runner", "array"), ("runner", "mat23")]


def cases(tier, seed):
    bmax = 5 if tier == "quick" else 7
    for B in range(2, bmax + 1):
        reqs = []
        for N in range(B, 2 * B + 2):
            for s in range(1, N + 1):
                if -(-N // s) == B:
                    reqs.append((N, "batchsize", s))
            reqs.append((N, "num_batches", B))
        subsets = [list(s) for k in range(1, B)
                   for s in itertools.combinations(range(1, B + 1), k)]
        for (N, mode, req), sub in itertools.product(reqs, subsets):
            # rotate through forms / shuffle so that every (request, subset)
            # meets several of them and every form meets every request
            h = (N * 31 + req * 7 + sum(sub) * 3 + len(sub)) % len(FORMS)
            nforms = 3 if tier == "quick" else len(FORMS)
            for j in range(nforms):
                form, kind = FORMS[(h + j * 5) % len(FORMS)]
                for shuffle in ((False, True) if (tier == "thorough" or j == 0)
                                else ((h + j) % 2 == 0,)):
                    yield {"N": N, "mode": mode, "req": req, "finished": sub,
                           "shuffle": shuffle, "form": form, "kind": kind,
                           # the reaping object is the long-lived sower that
                           # looked at its progress before others grew
                           "live": (h + j + len(sub)) % 3 == 0}


    for c in sampler_cases():
        yield c
    # crops with two- and three-digit batch ids: first / last / odd / all
    # but one finished
    for B, N, mode in ((11, 11, "batchsize"), (12, 25, "num_batches"),
                       (101, 101, "batchsize"), (100, 201, "num_batches")):
        req = 1 if mode == "batchsize" else B
        subs = [[1], [B], [2, 10], list(range(1, B + 1, 2)),
                list(range(1, B)), list(range(2, B + 1)), [B - 1, B]]
        for si, sub in enumerate(subs):
            form, kind = FORMS[(si * 3 + B) % len(FORMS)]
            yield {"N": N, "mode": mode, "req": req, "finished": sub,
                   "shuffle": bool((si + B) % 2), "form": form, "kind": kind,
                   "live": si % 3 == 0}


def sampler_cases():
    # a Sampler's crop: the partial reap is a table with a row per sample
    for N, bs in ((4, 2), (6, 2), (5, 2), (3, 1)):
        B = -(-N // bs)
        for k in range(1, B):
            for sub in itertools.combinations(range(1, B + 1), k):
                for live in (False, True):
                    yield {"sampler": True, "N": N, "bs": bs,
                           "finished": list(sub), "live": live}


def check_sampler(case):
    import numpy as np
    import xyzpy as xyz
    from xyzpy.gen.cropping import grow

    N, bs, sub = case["N"], case["bs"], case["finished"]
    d = core.fresh_dir("c09s.results[1]")
    f = xfn.make_fn(["a", "b"], kind="num", name="f09s")
    smp = xyz.Sampler(xyz.Runner(f, var_names="out"),
                      os.path.join(d, "table.pkl"),
                      default_combos={"a": [1, 2, 3, 4, 5], "b": [10, 20, 30]})
    crop = smp.Crop(name="k", parent_dir=d, batchsize=bs)
    np.random.seed(9)
    crop.sow_samples(N, verbosity=0)
    vio = []

    def key(sym):
        return "C09|sampler|num|batchsize|" + sym

    with xfn.CallLog() as log:
        for i in sub:
            grow(i, crop=xyz.Crop(name="k", parent_dir=d), verbosity=0)
    have = set(log.encs())
    c = crop if case["live"] else xyz.Crop(name="k", parent_dir=d)
    try:
        res = c.reap(allow_incomplete=True)
        rows = cmp.df_rows(res)
        done = [r for r in rows if r.get("out") is not None]
        if len(rows) != N:
            vio.append((key("partial-rows"), "partial reap of %d samples "
                        "(batches %r of %d finished) returned %d rows"
                        % (N, sub, -(-N // bs), len(rows))))
        elif sorted(xfn.enc(dict(a=r["a"], b=r["b"])) for r in done) != \
                sorted(have) or any(
                    r["out"] != xfn.expected("num", dict(a=r["a"], b=r["b"]))
                    for r in done):
            vio.append((key("partial-values"), "partial reap: rows with a "
                        "value %r, finished settings %r" % (done, sorted(have))))
        if not os.path.isdir(os.path.join(d, ".xyz-k")):
            vio.append((key("partial-deleted"), "the partial reap deleted "
                        "the crop"))
    except Exception as e:
        vio.append((key("partial-raised:" + type(e).__name__), repr(e)))
    return {"nontrivial": True, "outcome": "sampler", "violations": vio}


def worker_init():
    import xyzpy  # noqa


def check_case(case):
    import numpy as np
    import xyzpy as xyz
    from xyzpy.gen.cropping import grow

    if case.get("sampler"):
        return check_sampler(case)
    N, mode, req = case["N"], case["mode"], case["req"]
    form, kind, sub = case["form"], case["kind"], case["finished"]
    shape = factorise(N)[:2] if len(factorise(N)) <= 2 else (N,)
    if len(shape) == 2:
        # (given in an order that is not the alphabetical one)
        combos = {"b": vals(shape[1], 10), "a": vals(shape[0])}
    else:
        combos = {"a": vals(N)}
    args = sorted(combos)
    f = xfn.make_fn(args, kind=kind, name="f09")
    d = core.fresh_dir("c09")
    # (the crop's location may itself contain the words the crop's own
    # sub-directories and files are named with)
    subdir = [None, "results", "my batches/xyz-result-1", "run[1]*"][
        core.pick([N, mode, req, form, kind, "dir"], 4)]
    if subdir:
        d = os.path.join(d, subdir)
        os.makedirs(d)
    vio = []

    def key(sym):
        return "C09|%s|%s|%s|%s" % (form, kind, mode, sym)

    dskw = {}
    if kind in ("array", "iarray"):
        dskw = dict(var_names="out", var_dims={"out": ["t"]},
                    var_coords={"t": [0, 1, 2]})
    elif kind == "mat23":
        dskw = dict(var_names=["m", "s"], var_dims={"m": ["r", "c"]})
    elif kind == "cube213":
        dskw = dict(var_names="out", var_dims={"out": ["p", "q", "r"]})
    elif kind in ("dataset", "dict"):
        dskw = dict(var_names=None)
    else:
        dskw = dict(var_names="out")

    mk = (lambda **kw: xyz.Crop(farmer=xyz.Runner(f, **dskw), **kw)) \
        if form == "runner" else (lambda **kw: xyz.Crop(fn=f, **kw))
    # (a handle made before anything was sown - by name only - is used for
    # the partial reap later on)
    early = xyz.Crop(name="k", parent_dir=d) if core.pick(
        [N, mode, req, sub, form, "early"], 4) == 0 and not case.get("live") \
        else None
    if early is not None and core.pick([N, mode, req, sub, form, "earlyfn"],
                                       2):
        # (... made with the function, as the sowing object is)
        early = xyz.Crop(fn=f, name="k", parent_dir=d)
    if case["shuffle"] and core.pick([N, mode, req, sub, "ctor"], 3) == 0:
        # (a shuffle given to the constructor only; the sow call leaves its
        # own option at the default)
        crop = mk(name="k", parent_dir=d, shuffle=True, **{mode: req})
        crop.sow_combos(combos, verbosity=0)
    else:
        crop = mk(name="k", parent_dir=d, **{mode: req})
        crop.sow_combos(combos, shuffle=case["shuffle"], verbosity=0)
    B = crop.num_batches
    have = set()
    if case.get("live"):
        crop.num_results, crop.missing_results(), crop.is_ready_to_reap()
    with xfn.CallLog() as log:
        for i in sub:
            grow(i, crop=(xyz.Crop(name="k", parent_dir=d)
                          if case.get("live") else crop), verbosity=0)
    have = set(log.encs())
    before = fsseam.tree_hash(d)

    def shapes(x):
        try:
            return np.shape(x)
        except ValueError:  # ragged: outputs of different shapes
            return tuple(np.shape(y) for y in x)

    def reap(**kw):
        c = crop if case.get("live") else xyz.Crop(name="k", parent_dir=d)
        if early is not None and kw.get("allow_incomplete"):
            c = early
        if kw.get("allow_incomplete"):
            v_ = core.pick([N, mode, req, sub, form, kind, "ai"], 4)
            if v_ == 1:
                kw["allow_incomplete"] = 1            # truthy, not True
            elif v_ == 2:
                kw["allow_incomplete"] = np.bool_(True)
            elif v_ == 3 and not case.get("live"):
                # (the handle was copied before it was ever used)
                import copy
                c = copy.deepcopy(c)
        if form in ("raw", "runner"):
            return c.reap(**kw)
        if form == "ds":
            return c.reap_combos_to_ds(**dskw, **kw)
        return c.reap_combos_to_ds(var_names="out", to_df=True, **kw)

    def refusal():
        # ---- refused without allow_incomplete ---------------------------------
        try:
            reap()
            vio.append((key("not-refused"), "an incomplete crop was reaped "
                        "without allow_incomplete"))
        except Exception as e:
            if type(e).__name__ != "XYZError":
                vio.append((key("refused-with:" + type(e).__name__),
                            "incomplete crop refused with %r instead of the "
                            "documented error" % e))
        if fsseam.tree_hash(d) != before:
            vio.append((key("refusal-touched-files"),
                        "a refused reap changed the crop directory"))

    if not case.get("live"):
        refusal()

    # ---- the partial reap --------------------------------------------------
    def judge(res, full):
        """compare position by position; returns list of problems"""
        probs = []
        points = list(itertools.product(*[combos[a] for a in args]))
        if form == "df":
            rows = cmp.df_rows(res)
            if len(rows) != len(points):
                return ["%d rows for %d settings" % (len(rows), len(points))]
            seen = {}
            for r in rows:
                seen[tuple(r[a] for a in args)] = r
            for pt in points:
                kw = dict(zip(args, pt))
                r = seen.get(pt)
                if r is None:
                    probs.append("no row for %r" % (kw,))
                    continue
                done = full or xfn.enc(kw) in have
                v = r.get("out")
                if done and v != xfn.expected(kind, kw):
                    probs.append("row %r holds %r" % (kw, v))
                if not done and v is not None:
                    probs.append("row %r of an unfinished batch holds %r"
                                 % (kw, v))
            return probs
        for idx in itertools.product(*[range(len(combos[a])) for a in args]):
            kw = {a: combos[a][i] for a, i in zip(args, idx)}
            done = full or xfn.enc(kw) in have
            want = xfn.expected(kind, kw)
            if form == "raw":
                try:
                    v = cmp.nested_get(res, idx)
                except Exception:
                    probs.append("no slot at %r" % (idx,))
                    continue
                if done:
                    if not cmp.leaf_equal(v, want):
                        probs.append("slot %r holds %r" % (kw, v))
                else:
                    if not cmp.leaf_missing(v):
                        probs.append("slot %r of an unfinished batch holds %r"
                                     % (kw, v))
                    elif kind in ("array", "iarray", "tuple2", "mat23",
                                  "cube213") and shapes(v) != shapes(want):
                        probs.append("placeholder shape %r, real %r"
                                     % (shapes(v), shapes(want)))
            else:
                try:
                    cell = res.sel(kw)
                except Exception as e:
                    probs.append("no label %r: %r" % (kw, e))
                    continue
                if kind == "dict":
                    wv = dict(want)
                elif kind == "dataset":
                    wv = {v_: want[v_].values for v_ in want.data_vars}
                elif kind in ("array", "iarray", "cube213"):
                    wv = {"out": np.asarray(want)}
                elif kind == "mat23":
                    wv = {"m": want[0], "s": want[1]}
                else:
                    wv = {"out": want}
                for v_, w_ in wv.items():
                    got = cell[v_].values
                    if done:
                        ok = cmp.leaf_equal(
                            got.tolist() if got.ndim else got.item(),
                            np.asarray(w_).tolist() if np.ndim(w_) else w_)
                        if not ok:
                            probs.append("%s at %r is %r" % (v_, kw, got))
                    else:
                        if not cmp.leaf_missing(
                                got if got.ndim else got.item()):
                            probs.append("%s at %r of an unfinished batch is "
                                         "%r" % (v_, kw, got))
        return probs

    try:
        res = reap(allow_incomplete=True)
        probs = judge(res, full=False)
        if probs:
            vio.append((key("partial-wrong"), "finished %r of %d: %s"
                        % (sub, B, "; ".join(probs[:3]))))
        outcome = "partial-ok" if not probs else "partial-wrong"
    except Exception as e:
        vio.append((key("partial-raised:" + type(e).__name__),
                    "reap(allow_incomplete=True) with finished %r of %d "
                    "(N=%d, %s=%d) raised %r" % (sub, B, N, mode, req, e)))
        outcome = "partial-raised"
    if fsseam.tree_hash(d) != before:
        vio.append((key("partial-touched-files"),
                    "a partial reap changed the crop directory"))
    if case.get("live"):
        # (for the long-lived reaper the refusal is probed afterwards, so
        # that nothing refreshes its view of the crop before the partial reap)
        refusal()

    # ---- grow the rest, full reap ------------------------------------------
    try:
        c = xyz.Crop(name="k", parent_dir=d)
        c.grow_missing(verbosity=0)
        res = reap()
        probs = judge(res, full=True)
        if probs:
            vio.append((key("full-wrong"), "; ".join(probs[:3])))
        if os.path.exists(c.location):
            vio.append((key("not-cleaned"),
                        "a complete reap left the crop directory"))
    except Exception as e:
        vio.append((key("full-raised:" + type(e).__name__),
                    "growing the rest and reaping raised %r" % e))
    # ---- the same long-lived Crop object sown again with one setting more or
    # less (same number of batches, another last batch), partial reap again --
    N2 = next((m for m in (N + 1, N - 1)
               if m >= 2 and -(-m // req) == B and B >= 2), None) \
        if (case.get("live") and mode == "batchsize") else None
    if N2 is not None:
        try:
            combos = {"a": vals(N2)}
            if len(args) == 2:
                combos["b"] = vals(1, 10)
            crop.sow_combos(combos, shuffle=case["shuffle"], verbosity=0)
            with xfn.CallLog() as log:
                for i in range(1, B):
                    grow(i, crop=crop, verbosity=0)
            have = set(log.encs())
            res = reap(allow_incomplete=True)
            probs = judge(res, full=False)
            if probs:
                vio.append((key("resown-partial-wrong"),
                            "the same Crop object sown again with %d settings "
                            "(was %d), batches 1..%d finished: %s"
                            % (N2, N, B - 1, "; ".join(probs[:3]))))
        except Exception as e:
            vio.append((key("resown-raised:" + type(e).__name__),
                        "the same Crop object sown again with %d settings "
                        "(was %d), partial reap raised %r" % (N2, N, e)))
    return {"nontrivial": True, "outcome": "%s/%s:%s" % (form, kind, outcome),
            "violations": vio}
