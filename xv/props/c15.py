"""C15 - sampling only ever appends correct rows.

BFS over histories of sample_combos / sow_samples+grow+reap / new Sampler,
with every draw scripted by the explorer (choices are supplied as callables,
the documented generator form), against a list-of-rows reference model.
"""
import os
import itertools

from xv import core, histbfs, cmp, fn as xfn

ID = "C15"
LEVEL = "model_checking"
RULE = (
    "BFS (depth 3 quick / 4 thorough) over sampling runs on a real Sampler: "
    "sample_combos(n in {1,2}) with every scripted draw sequence over 2x2 "
    "choices, overrides of one argument's choices / an additional argument, "
    "extra constants, the numpy random-choice path with pinned seeds, "
    "sow_samples+grow+reap with batchsize 1 and 2 through long-lived Crop "
    "objects that are sown repeatedly (reaped through the same object or one "
    "rebuilt from disk, with and without a per-sow constant overriding the "
    "Runner's), a second live Sampler and a new Sampler on the same file; engines pickle and csv; state = the table + the set of live Crop "
    "objects + which Sampler wrote last; non-trivial = "
    "distinct reachable tables"
)
ASSUMPTIONS = [
    "randomness is owned by supplying the choices as callables scripted by "
    "the explorer; the np.random.choice path is pinned with np.random.seed "
    "and only required to draw from the allowed choices",
    "reference model: a list of rows; a run appends exactly n rows whose "
    "outputs are the function's value at exactly the drawn arguments",
    "csv tables hold numeric arguments only",
]

CH = {"a": [1, 2], "b": [10, 20]}

_SRC = '''
def scripted(name):
    def _d():
        import builtins
        return builtins._xv_script[name].pop(0)
    return _d
'''
_ns = {"__name__": "__main__"}
exec(_SRC, _ns)


class Cycler:
    """a generator supplied as an object that carries its own state: every
    call hands out the next of its values"""

    def __init__(self, values):
        self.values, self.i = list(values), 0

    def __call__(self):
        v = self.values[self.i % len(self.values)]
        self.i += 1
        return v


def events(tier, depth_left, engine="pickle"):
    ev = []
    pts = list(itertools.product(CH["a"], CH["b"]))
    for p in (pts if tier != "quick" else pts[1:3]):
        ev.append(["sample", [list(p)], None])
    seqs2 = list(itertools.product(pts, pts))
    if tier == "quick":
        seqs2 = seqs2[1::6]
    for s in seqs2:
        ev.append(["sample", [list(x) for x in s], None])
    ev.append(["sample", [[3, 10]], "a"])       # override a's choices
    ev.append(["sample", [[1, 20, 5]], "c"])    # an additional argument
    if engine == "pickle":
        # (... whose values are strings, next to the numeric ones)
        ev.append(["sample", [[2, 10, "t"], [1, 10, "u"]], "c"])
    ev.append(["sample", [[2, 10], [1, 10]], "k"])  # an extra constant
    # a constant given for one run that names a sampled argument (it wins,
    # for the call and for the row alike)
    ev.append(["sample", [[2, 10], [1, 20]], "clash"])
    # generators that are objects with a state of their own, handed to a new
    # Sampler for every run
    # a Sampler that is handed a table it already holds in memory (full_df=)
    # before any file exists
    ev.append(["sample_seeded", [[2, 10]]])
    # the engine given per call to a Sampler whose own default is the other
    ev.append(["sample_pc", [[1, 20]]])
    # a generator that runs out before the run is complete: the run fails,
    # nothing is appended
    ev.append(["sample_exhaust", 3, 2])
    # nothing is sampled - every argument is a constant - n repeats all the
    # same
    ev.append(["sample_const", 3])
    ev.append(["sample_obj", 1])
    ev.append(["sample_obj", 2])
    # the numpy random-choice path: one long-lived Sampler whose choices are
    # plain lists, with and without other lists given for one run only
    ev.append(["sample_np", 2, 7, None])
    ev.append(["sample_np", 1, 8, [3, 4]])
    ev.append(["sample_np", 2, 9, [5]])
    # a generator listed before a plain list of choices, and one between two
    # lists with a per-call list for the last (every value under its own name)
    ev.append(["sample_mixed", 3, 11, False])
    ev.append(["sample_mixed", 2, 12, True])
    # crop runs: draws, batchsize, reaped through the long-lived Crop object
    # (else a Crop rebuilt from disk), a constant given for this sow only
    # that the Runner also stores
    ev.append(["crop", [[2, 20], [1, 10]], 1, True, None])
    ev.append(["crop", [[1, 20], [2, 10]], 1, True, None])
    ev.append(["crop", [[1, 10], [1, 10], [2, 10]], 1, False, None])
    ev.append(["crop", [[2, 20], [1, 10]], 2, False, None])
    ev.append(["crop", [[1, 20], [2, 10]], 2, True, 4])
    ev.append(["crop", [[1, 10], [1, 10], [2, 10]], 2, True, None])
    ev.append(["crop", [[2, 10]], 1, False, 4])
    ev.append(["crop", [[2, 10], [1, 20]], 1, False, None, "clash"])
    # sown and grown, then sown again (new draws) before anything is reaped,
    # every batch grown again explicitly
    ev.append(["crop", [[1, 20], [2, 20]], 1, True, None, "resow"])
    ev.append(["new_session"])
    # a session that names the other engine for the same file: it cannot
    # read the table and must not replace it
    ev.append(["foreign"])
    # a second, long-lived Sampler object on the same file (another session
    # running at the same time; runs alternate, they do not overlap)
    ev.append(["other", [[2, 20]]])
    ev.append(["other", [[1, 10], [2, 10]]])
    return ev


class World:
    def __init__(self, cfg, d):
        import xyzpy as xyz

        self.cfg, self.d = cfg, d
        self.f = xfn.make_fn(["a", "b", "c", "k"], kind="num", name="f15",
                             defaults={"c": 0, "k": 0})
        self.path = os.path.join(d, "table." + {"pickle": "pkl",
                                                "csv": "csv"}[cfg["engine"]]
                                 + cfg.get("suffix", ""))
        self.rows = []  # reference model
        self.s = self.new_sampler()
        self.s2 = self.new_sampler()
        self.snp = None
        self.snp_used = set()
        self.cyc = {"a": Cycler(CH["a"]), "b": Cycler(CH["b"] + [10])}
        self.ndraw = 0
        self.last = self.s

    def new_sampler(self, scripted=True):
        import xyzpy as xyz

        r = xyz.Runner(self.f, var_names="out", constants={"k": 0})
        # (choices listed in another order than the function's signature)
        dc = ({a: _ns["scripted"](a) for a in ("b", "a")} if scripted
              else {a: list(CH[a]) for a in ("b", "a")})
        return xyz.Sampler(r, data_name=self.path, engine=self.cfg["engine"],
                           default_combos=dc)

    def expect_row(self, a, b, c=None, k=None):
        kw = dict(a=a, b=b, c=0 if c is None else c, k=0 if k is None else k)
        row = {"a": a, "b": b, "out": xfn.expected("num", kw)}
        if c is not None:
            row["c"] = c
        # (the Runner stores the constant k=0; a run may override it)
        row["k"] = 0 if k is None else k
        return row

    def apply(self, ev):
        import builtins
        import numpy as np
        import xyzpy as xyz

        vio = []
        kind = ev[0]
        before = list(self.rows)
        new_rows = None
        prev_last = self.last
        if kind != "other":
            self.last = None  # (set to the acting sampler below)
        if kind == "other":
            seq = ev[1]
            builtins._xv_script = {"a": [x[0] for x in seq],
                                   "b": [x[1] for x in seq]}
            try:
                last = self.s2.sample_combos(len(seq), verbosity=0)
            except Exception as e:
                return [("raised:" + type(e).__name__,
                         "sample_combos (second sampler) raised %r" % e)]
            self.last = self.s2
            new_rows = [self.expect_row(x[0], x[1]) for x in seq]
        elif kind == "sample":
            _, seq, over = ev
            n = len(seq)
            script = {"a": [s[0] for s in seq], "b": [s[1] for s in seq]}
            kw = {}
            if over == "a":
                kw["combos"] = {"a": _ns["scripted"]("a")}
            elif over == "c":
                script["c"] = [s[2] for s in seq]
                kw["combos"] = {"c": _ns["scripted"]("c")}
            elif over == "k":
                kw["constants"] = {"k": 4}
            elif over == "clash":
                kw["constants"] = {"b": 30}
            builtins._xv_script = script
            try:
                last = self.s.sample_combos(n, verbosity=0, **kw)
            except Exception as e:
                return [("raised:" + type(e).__name__,
                         "sample_combos raised %r" % e)]
            if any(script.values()) and over != "clash":
                vio.append(("draw-count", "generators were not called exactly "
                            "n times: left %r" % script))
            new_rows = [self.expect_row(
                s[0], 30 if over == "clash" else s[1],
                s[2] if over == "c" else None,
                4 if over == "k" else None) for s in seq]
        elif kind == "sample_seeded":
            import pandas as pd

            if self.rows or os.path.exists(self.path):
                self.last = prev_last
                return []
            seq = ev[1]
            seed_rows = [self.expect_row(1, 10), self.expect_row(2, 20)]
            r = xyz.Runner(self.f, var_names="out", constants={"k": 0})
            ss = xyz.Sampler(r, data_name=self.path, engine=self.cfg["engine"],
                             default_combos={a: _ns["scripted"](a)
                                             for a in ("b", "a")},
                             full_df=pd.DataFrame(seed_rows))
            builtins._xv_script = {"a": [x[0] for x in seq],
                                   "b": [x[1] for x in seq]}
            try:
                last = ss.sample_combos(len(seq), verbosity=0)
            except Exception as e:
                return [("raised:" + type(e).__name__,
                         "sample_combos (Sampler given full_df) raised %r"
                         % e)]
            self.s = self.new_sampler()
            before = seed_rows
            new_rows = [self.expect_row(x[0], x[1]) for x in seq]
        elif kind == "sample_exhaust":
            _, n, avail = ev
            it_a = iter([CH["a"][j % 2] for j in range(avail)])
            r = xyz.Runner(self.f, var_names="out", constants={"k": 0})
            se = xyz.Sampler(r, data_name=self.path, engine=self.cfg["engine"],
                             default_combos={"b": list(CH["b"]),
                                             "a": lambda: next(it_a)})
            self.last = prev_last
            try:
                se.sample_combos(n, verbosity=0)
            except Exception:
                return []   # (refused: the table is judged by observe)
            self.last = se
            return [("short-run", "the generator of 'a' ran out after %d of "
                     "%d draws and the run returned normally" % (avail, n))]
        elif kind == "sample_const":
            n = ev[1]
            r = xyz.Runner(self.f, var_names="out",
                           constants={"k": 0, "a": 2, "b": 20})
            sc_ = xyz.Sampler(r, data_name=self.path,
                              engine=self.cfg["engine"])
            try:
                last = sc_.sample_combos(n, verbosity=0)
            except Exception as e:
                return [("raised:" + type(e).__name__, "sample_combos with "
                         "constants only raised %r" % e)]
            self.s = self.new_sampler()
            new_rows = [self.expect_row(2, 20) for _ in range(n)]
        elif kind == "sample_pc":
            seq = ev[1]
            other = {"pickle": "csv", "csv": "pickle"}[self.cfg["engine"]]
            r = xyz.Runner(self.f, var_names="out", constants={"k": 0})
            sp = xyz.Sampler(r, data_name=self.path, engine=other,
                             default_combos={a: _ns["scripted"](a)
                                             for a in ("b", "a")})
            builtins._xv_script = {"a": [x[0] for x in seq],
                                   "b": [x[1] for x in seq]}
            try:
                last = sp.sample_combos(len(seq), verbosity=0,
                                        engine=self.cfg["engine"])
            except Exception as e:
                return [("raised:" + type(e).__name__,
                         "sample_combos(engine=%r) on a Sampler whose own "
                         "engine is %r raised %r" % (self.cfg["engine"],
                                                     other, e))]
            self.s = self.new_sampler()
            new_rows = [self.expect_row(x[0], x[1]) for x in seq]
        elif kind == "sample_obj":
            n = ev[1]
            # (the reference model counts the draws itself)
            want_draws = [(CH["a"][(self.ndraw + j) % 2],
                           (CH["b"] + [10])[(self.ndraw + j) % 3])
                          for j in range(n)]
            self.ndraw += n
            r = xyz.Runner(self.f, var_names="out", constants={"k": 0})
            so = xyz.Sampler(r, data_name=self.path, engine=self.cfg["engine"],
                             default_combos={"b": self.cyc["b"],
                                             "a": self.cyc["a"]})
            try:
                last = so.sample_combos(n, verbosity=0)
            except Exception as e:
                return [("raised:" + type(e).__name__,
                         "sample_combos (generator objects) raised %r" % e)]
            self.s = self.new_sampler()
            new_rows = [self.expect_row(a_, b_) for a_, b_ in want_draws]
        elif kind == "sample_np":
            _, n, seed, over = ev
            if self.snp is None:
                self.snp = self.new_sampler(scripted=False)
            s2 = self.snp
            self.snp_used.add(repr(over))
            np.random.seed(seed)
            allowed_a = CH["a"] if over is None else over
            try:
                if over is None:
                    last = s2.sample_combos(n, verbosity=0)
                else:
                    last = s2.sample_combos(n, combos={"a": list(over)},
                                            verbosity=0)
            except Exception as e:
                return [("raised:" + type(e).__name__,
                         "sample_combos (random choice) raised %r" % e)]
            self.s = self.new_sampler()
            got = cmp.df_rows(last)
            new_rows = []
            for r in got:
                if r["a"] not in allowed_a or r["b"] not in CH["b"]:
                    vio.append(("choice-outside", "drew %r outside the "
                                "choices allowed in this run (a in %r)"
                                % (r, allowed_a)))
                new_rows.append(self.expect_row(r["a"], r["b"]))
            if len(got) != n:
                vio.append(("run-length", "%d rows for n=%d" % (len(got), n)))
        elif kind == "sample_mixed":
            _, n, seed, three = ev
            gen_a = Cycler(CH["a"])
            dc = {"a": gen_a, "b": list(CH["b"])}
            kw = {}
            if three:
                dc = {"b": list(CH["b"]), "a": gen_a, "c": [7, 8]}
                kw["combos"] = {"c": [5]}
            r = xyz.Runner(self.f, var_names="out", constants={"k": 0})
            sm = xyz.Sampler(r, data_name=self.path, engine=self.cfg["engine"],
                             default_combos=dc)
            np.random.seed(seed)
            try:
                last = sm.sample_combos(n, verbosity=0, **kw)
            except Exception as e:
                return [("raised:" + type(e).__name__,
                         "sample_combos (generator before a list) raised %r"
                         % e)]
            self.s = self.new_sampler()
            got = cmp.df_rows(last)
            new_rows = []
            for j, r_ in enumerate(got):
                want_a = CH["a"][j % len(CH["a"])]
                if r_["a"] != want_a or r_["b"] not in CH["b"] or (
                        three and r_.get("c") != 5):
                    vio.append(("choice-outside", "draw %d is %r: the "
                                "generator of a hands out %r, b is chosen "
                                "from %r%s" % (j, r_, want_a, CH["b"],
                                               ", c from [5]" if three
                                               else "")))
                new_rows.append(self.expect_row(
                    r_["a"], r_["b"], **({"c": r_.get("c")} if three else {})))
            if len(got) != n:
                vio.append(("run-length", "%d rows for n=%d" % (len(got), n)))
        elif kind == "crop":
            _, seq, bs, live, constk = ev[:5]
            resow = len(ev) > 5 and ev[5] == "resow"
            clash = len(ev) > 5 and ev[5] == "clash"
            n = len(seq)
            builtins._xv_script = {"a": [s[0] for s in seq],
                                   "b": [s[1] for s in seq]}
            if resow:
                # (the first sowing draws other values: b and a swapped)
                first = [[CH["a"][(CH["a"].index(s[0]) + 1) % 2],
                          CH["b"][(CH["b"].index(s[1]) + 1) % 2]] for s in seq]
                builtins._xv_script = {
                    "a": [s[0] for s in first] + [s[0] for s in seq],
                    "b": [s[1] for s in first] + [s[1] for s in seq]}
            try:
                # (one long-lived Crop object per batch size is re-used for
                # every sow cycle, as in a notebook session)
                if not hasattr(self, "crops"):
                    self.crops = {}
                # (keyed by n as well: a sown Crop object keeps its number of
                # batches, so it is only re-used for sweeps of the same size)
                if (bs, n) not in self.crops:
                    self.crops[bs, n] = self.s.Crop(
                        name="k%d_%d" % (bs, n), parent_dir=self.d,
                        batchsize=bs)
                crop = self.crops[bs, n]
                if crop.is_prepared():
                    crop.missing_results()
                if clash:
                    crop.sow_samples(n, verbosity=0, constants={"b": 30})
                elif constk is None:
                    crop.sow_samples(n, verbosity=0)
                else:
                    crop.sow_samples(n, verbosity=0, constants={"k": constk})
                crop.grow_missing(verbosity=0)
                if resow:
                    crop.sow_samples(n, verbosity=0)
                    crop.grow(list(range(1, crop.num_batches + 1)),
                              verbosity=0)
                if live:
                    last = crop.reap()
                else:
                    last = xyz.Crop(name="k%d_%d" % (bs, n),
                                    parent_dir=self.d).reap()
                # (the table was written by the crop's own sampler)
                self.s = self.new_sampler()
            except Exception as e:
                self.last = self.s
                return [("raised:" + type(e).__name__,
                         "sow_samples/grow/reap raised %r" % e)]
            new_rows = [self.expect_row(s[0], 30 if clash else s[1], k=constk)
                        for s in seq]
        elif kind == "new_session":
            self.s = self.new_sampler()
            self.last = self.s
            return []
        elif kind == "foreign":
            self.last = prev_last
            if not os.path.exists(self.path):
                return []
            other = {"pickle": "csv", "csv": "pickle"}[self.cfg["engine"]]
            with open(self.path, "rb") as fh:
                before_bytes = fh.read()
            r = xyz.Runner(self.f, var_names="out", constants={"k": 0})
            sf = xyz.Sampler(r, data_name=self.path, engine=other,
                             default_combos={a: list(CH[a]) for a in CH})
            try:
                sf.sample_combos(1, verbosity=0)
                raised = False
            except Exception:
                raised = True
            with open(self.path, "rb") as fh:
                after_bytes = fh.read()
            if after_bytes != before_bytes or not raised:
                vio.append(("foreign-session", "a Sampler naming engine %r "
                            "for the %s table %s; the file %s" % (
                                other, self.cfg["engine"],
                                "raised" if raised else "sampled as if there "
                                "were no table", "was rewritten"
                                if after_bytes != before_bytes
                                else "is unchanged")))
                with open(self.path, "wb") as fh:
                    fh.write(before_bytes)
            return vio
        else:
            raise core.HarnessError("unknown event %r" % (ev,))
        if self.last is None:
            self.last = self.s
        # the run's own frame
        got_last = sorted(cmp.row_key(r) for r in cmp.df_rows(last))
        if got_last != sorted(cmp.row_key(r) for r in new_rows):
            vio.append(("last-run", "the run returned %r, expected %r"
                        % (cmp.df_rows(last)[:3], new_rows[:3])))
        self.rows = before + new_rows
        return vio

    def observe(self):
        import xyzpy as xyz

        vio = []
        want = [cmp.row_key(_fill(r)) for r in self.rows]
        views = {}
        try:
            # the table held by the sampler that ran last (another live
            # sampler is legitimately stale until its next synced run)
            fd = self.last.full_df
            views["memory"] = [] if fd is None else cmp.df_rows(fd)
        except Exception as e:
            vio.append(("memory-unreadable", "full_df raised %r" % e))
        if self.rows:
            try:
                views["disk"] = cmp.df_rows(xyz.manage.load_df(
                    self.path, engine=self.cfg["engine"]))
            except Exception as e:
                vio.append(("disk-unreadable", "load_df raised %r" % e))
            try:
                fd = self.new_sampler().full_df
                views["new-sampler"] = cmp.df_rows(fd)
            except Exception as e:
                vio.append(("new-sampler-unreadable", "%r" % e))
        for who, rows in views.items():
            got = [cmp.row_key(_fill(r)) for r in rows]
            if got != want:
                n, m = len(got), len(want)
                if n != m:
                    what = "%d rows, reference model %d" % (n, m)
                else:
                    bad = [i for i in range(n) if got[i] != want[i]]
                    what = "row %d is %r, reference model %r" % (
                        bad[0], rows[bad[0]], self.rows[bad[0]])
                vio.append((who + "-vs-model", "%s: %s" % (who, what)))
        # the state is the table plus which long-lived objects exist and who
        # wrote last (objects may hold hidden state: merging histories that
        # differ in them would hide what they do next)
        key = core.jhash([want, sorted(getattr(self, "crops", {})),
                          self.last is self.s2, sorted(self.snp_used),
                          self.ndraw % 6])
        return vio, key


def _fill(r):
    # columns a row never had are null
    out = {"c": None, "k": None}
    out.update(r)
    return out


def build(cfg, hist, d):
    core.fresh_dir(os.path.basename(d))
    w = World(cfg, d)
    for ev in hist:
        w.apply(ev)
        w.observe()
    return w


def expand(task):
    cfg, hist = task
    tier = os.environ.get("XV_TIER", "quick")
    d = os.path.join(core.scratch_root(), "c15.results[1].batches")
    w = build(cfg, hist, d)
    out = {"hist": hist, "succ": []}
    if not hist:
        out["init_key"] = w.observe()[1]
    for n, ev in enumerate(events(tier, 0, cfg["engine"])):
        if n:
            w = build(cfg, hist, d)
        tag = "C15|%s|%s" % (cfg["engine"], ev[0] if ev[0] != "sample"
                             else "sample-%s" % (ev[2] or "plain"))
        try:
            v1 = w.apply(ev)
            v2, key = w.observe()
        except core.HarnessError:
            raise
        except Exception as e:
            v1, v2, key = [("harness-raised:" + type(e).__name__, repr(e))], \
                [], None
        vio = [("%s|%s" % (tag, s), "after %r + %r: %s" % (hist, ev, what))
               for s, what in v1 + v2]
        out["succ"].append((ev, key, vio, ev[0]))
    return out


def run(ctx):
    os.environ["XV_TIER"] = ctx.tier
    states = transitions = 0
    per = {}
    depth = 3 if ctx.tier == "quick" else 4
    cap = 450 if ctx.tier == "quick" else 3000
    # (the third: a table name with a compression suffix, shallower)
    for cfg in ({"engine": "pickle"}, {"engine": "csv"},
                {"engine": "pickle", "suffix": ".gz"}):
        gz = bool(cfg.get("suffix"))
        r = histbfs.bfs(ctx, "expand", cfg, 2 if gz else depth,
                        max_states=60 if gz else cap,
                        label=cfg["engine"] + cfg.get("suffix", ""))
        states += r["states"]
        transitions += r["transitions"]
        per[cfg["engine"] + cfg.get("suffix", "")] = r
    # the table only grows: the search cannot reach a fix-point
    ctx.exhaustive = False
    ctx.coverage_extra.update({
        "states": states, "transitions": transitions,
        "traces_validated_against_impl": transitions,
        "per_configuration": per,
        "explanation": "all histories up to the stated depth (the table "
        "grows monotonically, so there is no fix-point); 'capped' = the state "
        "bound stopped new states from being expanded at the last level",
    })


def replay(case):
    d = os.path.join(core.scratch_root(), "c15.results[1].batches")
    cfg, hist = case["cfg"], case["history"]
    w = build(cfg, hist[:-1], d)
    ev = hist[-1]
    tag = "C15|%s|%s" % (cfg["engine"], ev[0] if ev[0] != "sample"
                         else "sample-%s" % (ev[2] or "plain"))
    v1 = w.apply(ev)
    v2, _ = w.observe()
    return [("%s|%s" % (tag, s), what) for s, what in v1 + v2]
