"""C07 - batches partition the work exactly and honour the size / count."""
import os
import math
import copy
import itertools
import collections

from xv import core, fn as xfn

ID = "C07"
LEVEL = "exploration"
RULE = (
    "every N in 1..Nmax x every batchsize 1..N+1 and num_batches 1..N+2 x "
    "{grid, case list, cases x sub-grid} x shuffle x constants source; each "
    "sown into a fresh crop, every batch read back by growing it with a "
    "recording function; plus crops of 101-257 batches; plus (farmer "
    "constants) the farmer's stored constants / resources changed and the "
    "same Crop object sown again; plus (case lists) the same Crop object "
    "sown again with exactly one batch less work (refused, or right); "
    "non-trivial = N >= 2 and at least 2 batches"
)
ASSUMPTIONS = [
    "batch contents are observed through xyz.grow(i, crop, fn=recorder), "
    "i.e. what a worker would really be handed",
    "re-sowing is limited to the same number of settings (re-sowing over "
    "stale batch files of another size is C08's subject)",
]

POOL_A = [3, 1, 2, 0, 7, 5, 4, 6]


def factorise(n):
    """first factorisation of n into <= 3 factors > 1 (or (n,))"""
    fs = []
    m, p = n, 2
    while m > 1 and p * p <= m:
        while m % p == 0:
            fs.append(p)
            m //= p
        p += 1
    if m > 1:
        fs.append(m)
    if not fs:
        return (1,)
    while len(fs) > 3:
        fs = sorted(fs)
        fs = [fs[0] * fs[1]] + fs[2:]
    return tuple(fs)


def vals(n, off=0):
    # n distinct values, deliberately unsorted
    r = list(range(n))
    return [off + x for x in r[1::2][::-1] + r[0::2]]


def build_inputs(n, kind):
    """-> (mode, combos, fn_args, cases) with exactly n settings"""
    if kind == "grid":
        shape = factorise(n)
        names = ["c", "a", "b"][: len(shape)]  # not alphabetical
        combos = [[nm, vals(s, i)] for i, (nm, s) in enumerate(zip(names, shape))]
        return combos, None, None
    if kind == "cases":
        cases = [[vals(n)[i], (i * 5 + 2) % 9] for i in range(n)]
        return None, ["a", "b"], cases
    if kind == "cases1":
        # one argument, its name given as a plain string
        return None, "alpha", [[v] for v in vals(n)]
    if kind in ("mix", "mix2"):
        shape = factorise(n)
        n2 = shape[-1] if len(shape) > 1 else 1
        n1 = n // n2
        cases = [[vals(n1)[i], (i * 5 + 2) % 9] for i in range(n1)]
        combos = [["c", vals(n2, 1)]]
        return combos, ["a", "b"], cases
    raise ValueError(kind)


def cases(tier, seed):
    nmax = 24 if tier == "quick" else 48
    variants = list(itertools.product(
        ("grid", "cases", "mix", "mix2", "cases1"), (False, True, 3),
        ("none", "const", "farmer", "farmer-override", "const0", "farmer0",
         "farmer-extra", "farmer-shared", "farmer-clash")))
    for n in range(1, nmax + 1):
        reqs = [("batchsize", s) for s in range(1, n + 2)]
        reqs += [("num_batches", k) for k in range(1, n + 3)]
        reqs += [("default", None)]
        for (mode, req), (kind, shuffle, const) in itertools.product(
                reqs, variants):
            # (quick: a fifth of the secondary combinations per request,
            # chosen by a hash so that every pair of values meets)
            if tier == "quick" and core.pick(
                    [n, mode, req, kind, shuffle, const], 5):
                continue
            yield {"n": n, "mode": mode, "req": req, "kind": kind,
                   "shuffle": shuffle, "const": const,
                   "resow": const.startswith("farmer")
                   and ((n + (req or 0)) % 3 == 0 or const == "farmer-shared"),
                   "again": (n + (req or 0)) % 4 == 1,
                   # (not with a count above N: the capped count is kept on
                   # the Crop object and an identical second request would
                   # then contradict it)
                   "at_sow": mode != "default" and not (
                       mode == "num_batches" and req > n) and core.pick(
                       [n, mode, req, kind, "at"], 3) == 0}


    # crops with more than 100 batches (three-digit ids, any internal window)
    big = [(101, "batchsize", 1), (128, "num_batches", 128),
           (130, "num_batches", 101), (1010, "batchsize", 10),
           (257, "default", None),
           # batches of more than 256 settings (beyond the small integers
           # the interpreter keeps as singletons)
           (700, "batchsize", 300), (1000, "num_batches", 3)]
    for bi, (n, mode, req) in enumerate(big):
        for vi, (kind, shuffle, const) in enumerate(variants):
            if (vi + bi) % (2 if tier == "thorough" else 4) == 0:
                yield {"n": n, "mode": mode, "req": req, "kind": kind,
                       "shuffle": shuffle, "const": const,
                       "resow": const.startswith("farmer") and bi % 2 == 0}


    # the Crop factories of the three farmer kinds hand the batch request on
    for far in ("runner", "harvester", "sampler"):
        for n in (5, 10):
            for mode, req in (("batchsize", 3), ("num_batches", 4),
                              ("num_batches", 3), ("batchsize", 1),
                              ("default", None)):
                yield {"factory": far, "n": n, "mode": mode, "req": req}


def worker_init():
    import xyzpy  # noqa


def check_factory(case):
    import xyzpy as xyz
    from xyzpy.gen.cropping import grow

    far, n, mode, req = case["factory"], case["n"], case["mode"], case["req"]
    d = core.fresh_dir("c07.batches[2].xyz-result-2")
    f = xfn.make_fn(["a"], kind="num", name="f07")
    r = xyz.Runner(f, var_names="out")
    if far == "harvester":
        farmer = xyz.Harvester(r, data_name=os.path.join(d, "data.h5"))
    elif far == "sampler":
        farmer = xyz.Sampler(r, data_name=os.path.join(d, "t.pkl"),
                             default_combos={"a": list(range(100))})
    else:
        farmer = r
    kws = {} if mode == "default" else {mode: req}
    vio = []
    tag = "C07|factory-%s|%s|" % (far, mode)
    try:
        crop = farmer.Crop(name="c7", parent_dir=d, **kws)
        if far == "sampler":
            crop.sow_samples(n, verbosity=0)
        else:
            crop.sow_combos({"a": list(range(n))}, verbosity=0)
        B = math.ceil(n / req) if mode == "batchsize" else (
            min(req, n) if mode == "num_batches" else n)
        c2 = xyz.Crop(name="c7", parent_dir=d)
        # (the sown crop opened again through the farmer, without and with
        # the original request: it reports what was sown)
        c3 = farmer.Crop(name="c7", parent_dir=d)
        c4 = farmer.Crop(name="c7", parent_dir=d, **kws)
        rep = (crop.num_batches, c2.num_batches, c2.num_sown_batches)
        rep2 = [(c.num_batches, c.num_sown_batches,
                 tuple(c.missing_results())) for c in (c3, c4)]
        if rep == (B, B, B) and any(
                x != (B, B, tuple(range(1, B + 1))) for x in rep2):
            vio.append((tag + "reopened", "%s.Crop(%s=%r), %d settings, opened "
                        "again through the %s: (num_batches, sown, missing) = "
                        "%r, expected %d batches" % (far, mode, req, n, far,
                                                     rep2, B)))
        if rep != (B, B, B):
            vio.append((tag + "count", "%s.Crop(%s=%r), %d settings: "
                        "num_batches=%r (reloaded %r, sown files %r), "
                        "expected %d" % ((far, mode, req, n) + rep + (B,))))
        else:
            sizes = []
            for i in range(1, B + 1):
                with xfn.CallLog() as log:
                    grow(i, crop=c2, fn=f, verbosity=0)
                sizes.append(len(log.calls))
            if sum(sizes) != n or min(sizes) == 0 or (
                    mode == "batchsize" and max(sizes) > req) or (
                    mode == "num_batches" and max(sizes) - min(sizes) > 1):
                vio.append((tag + "sizes", "%s.Crop(%s=%r), %d settings: "
                            "batch sizes %r" % (far, mode, req, n, sizes)))
    except Exception as e:
        vio.append((tag + "raised:" + type(e).__name__, repr(e)))
    return {"nontrivial": True, "outcome": "factory", "violations": vio}


def check_case(case):
    import xyzpy as xyz
    from xyzpy.gen.cropping import grow

    if case.get("factory"):
        return check_factory(case)
    n, mode, req = case["n"], case["mode"], case["req"]
    kind, shuffle, const = case["kind"], case["shuffle"], case["const"]
    combos, fn_args, cs = build_inputs(n, kind)
    vio = []

    argnames = sorted(
        set([fn_args] if isinstance(fn_args, str) else (fn_args or []))
        | {a for a, _ in (combos or [])}
    )
    constants, resources = {}, {}
    if const != "none":
        constants = {"k": 7}
    if const in ("const0", "farmer0"):
        # (falsy, but perfectly good constants)
        constants = {"k": 0, "flag": False}
    farmer = const.startswith("farmer")
    # constants given for this run only override the farmer's stored ones
    override = {"k": 5} if const == "farmer-override" else None
    extra_args, defaults = [], None
    if const in ("farmer-extra", "farmer-shared"):
        # (farmer-shared: the caller keeps one dict of extra constants and
        # hands that same object to every sow, also after the farmer's own
        # constants have changed)
        # a constant of a new name, given for one sow only (the function has
        # a default for it)
        override = {"x": 5}
        extra_args, defaults = ["x"], {"x": 1}
    if farmer:
        resources = {"r": 0 if const == "farmer0" else 9}
    if const == "farmer-clash":
        # (the farmer holds a resource under the name of one of its
        # constants: the constant is what a direct run passes)
        resources = {"r": 9, "k": 3}
    f = xfn.make_fn(argnames + sorted(set(constants) | set(resources))
                    + extra_args, kind="num", name="f07", defaults=defaults)

    # ---- reference: what a direct run passes ------------------------------
    dcombos = {a: v for a, v in combos} if combos else None
    dcases = [tuple(c) for c in cs] if cs else None
    runner = None
    if farmer:
        runner = xyz.Runner(f, var_names="out", constants=dict(constants),
                            resources=dict(resources))

    # what the farmer is meant to hold at the moment (the reference run goes
    # through a twin built from this, never through the farmer under test)
    ref = {"constants": dict(constants), "resources": dict(resources)}

    def direct_run():
        if farmer:
            okw = {"constants": dict(override)} if override else {}
            twin = xyz.Runner(f, var_names="out",
                              constants=dict(ref["constants"]),
                              resources=dict(ref["resources"]))
            if kind == "grid":
                twin.run_combos(copy.deepcopy(dcombos), verbosity=0, **okw)
            else:
                # (run_cases does not parse combos: hand them over parsed)
                twin.run_cases(list(dcases), fn_args=fn_args,
                                 combos=tuple(copy.deepcopy(dcombos).items())
                                 if dcombos else (), verbosity=0, **okw)
        else:
            if kind == "grid":
                xyz.combo_runner(f, copy.deepcopy(dcombos),
                                 constants=dict(constants), verbosity=0)
            else:
                xyz.case_runner(f, fn_args, list(dcases),
                                combos=copy.deepcopy(dcombos),
                                constants=dict(constants), verbosity=0)

    with xfn.CallLog() as direct:
        direct_run()
    want = collections.Counter(direct.encs())
    if sum(want.values()) != n or max(want.values()) != 1:
        raise core.HarnessError("reference run is not n distinct calls")

    # ---- sow ---------------------------------------------------------------
    d = core.fresh_dir("c07.batches[2].xyz-result-2")
    kws = {}
    if mode != "default":
        kws[mode] = req
    ckw = {} if case.get("at_sow") else kws
    if farmer:
        crop = runner.Crop(name="c7", parent_dir=d, **ckw)
        sow_consts = dict(override) if override else None
    else:
        # (save_fn=False: the function is not stored with the crop - every
        # grow below is handed the function anyway)
        nofn = {"save_fn": False} if core.pick(
            [n, mode, req, kind, shuffle, "savefn"], 5) == 0 and not \
            case.get("again") else {}
        crop = xyz.Crop(fn=f, name="c7", parent_dir=d,
                        shuffle=(shuffle if kind in ("cases", "mix2", "cases1")
                                 else False),
                        **ckw, **nofn)
        sow_consts = dict(constants) if constants else None

    # (the batch request may be given to the sow call instead of the
    # constructor)
    skw = dict(kws) if case.get("at_sow") else {}

    def sow():
        sc = dict(sow_consts) if sow_consts else None
        if const == "farmer-shared":
            sc = sow_consts
        if kind == "mix2":
            # cases x sub-grid through sow_cases (sub-grid in parsed form)
            crop.sow_cases(fn_args, list(dcases), constants=sc, verbosity=0,
                           combos=tuple(copy.deepcopy(dcombos).items()),
                           **skw)
        elif kind in ("cases", "cases1"):
            crop.sow_cases(fn_args, list(dcases), constants=sc, verbosity=0,
                           **skw)
        elif kind == "grid":
            gc = copy.deepcopy(dcombos)
            if core.pick([n, mode, req, shuffle, "gen"], 4) == 0:
                # (the values of each argument as a one-shot iterator)
                gc = {a: iter(v) for a, v in gc.items()}
            crop.sow_combos(gc, constants=sc,
                            shuffle=shuffle, verbosity=0, **skw)
        else:
            mc = [dict(zip(fn_args, c)) for c in dcases]
            form = core.pick([n, mode, req, shuffle, const, "mixform"], 3)
            if len(mc) == 1 and form:
                mc = mc[0]            # a single case as a bare mapping
            elif form == 2:
                mc = (c for c in mc)  # a one-shot iterator of cases
            crop.sow_combos(copy.deepcopy(dcombos), cases=mc,
                            constants=sc, shuffle=shuffle, verbosity=0, **skw)

    sow()

    def tag(s):
        return "C07|%s|%s|%s" % (kind, mode, s)

    # ---- numbers reported --------------------------------------------------
    if mode == "batchsize":
        B = math.ceil(n / req)
    elif mode == "num_batches":
        B = min(req, n)
    else:
        B = n
    rep = (crop.batchsize, crop.num_batches, crop.num_sown_batches)
    if crop.num_batches != B or crop.num_sown_batches != B:
        vio.append((tag("count"),
                    "expected %d batches, crop reports num_batches=%r "
                    "num_sown_batches=%r"
                    % (B, crop.num_batches, rep[2])))
    crop2 = xyz.Crop(name="c7", parent_dir=d)
    rep2 = (crop2.batchsize, crop2.num_batches, crop2.num_sown_batches)
    if rep2 != rep:
        vio.append((tag("reload"),
                    "reported (batchsize, num_batches, num_sown) %r before "
                    "reload, %r after" % (rep, rep2)))

    # ---- batch contents through grow ---------------------------------------
    sizes = []
    got = collections.Counter()
    nb = max(B, rep[2] or 0, crop.num_batches or 0)
    for i in range(1, nb + 1):
        with xfn.CallLog() as log:
            try:
                grow(i, crop=crop2, fn=f, verbosity=0)
                ok = True
            except Exception as e:  # a gap or an empty batch
                ok = False
                err = repr(e)
        if not ok:
            vio.append((tag("gap"), "batch %d of %d cannot be grown: %s"
                        % (i, nb, err)))
            continue
        sizes.append(len(log.calls))
        got.update(log.encs())
    for bad in (0, nb + 1):
        try:
            with xfn.CallLog():
                grow(bad, crop=crop2, fn=f, verbosity=0)
            vio.append((tag("ids"), "batch id %d exists (ids should be 1..%d)"
                        % (bad, nb)))
        except Exception:
            pass
    if got != want:
        missing = list((want - got).elements())[:3]
        extra = list((got - want).elements())[:3]
        vio.append((tag("partition"),
                    "batches do not partition the direct run: missing %r "
                    "extra/duplicated %r" % (missing, extra)))
    if sizes and min(sizes) == 0:
        vio.append((tag("empty"), "empty batch, sizes %r" % sizes))
    if sizes and mode == "batchsize" and max(sizes) > req:
        vio.append((tag("size"), "batch larger than requested %d: %r"
                    % (req, sizes)))
    if sizes and mode == "num_batches" and max(sizes) - min(sizes) > 1:
        vio.append((tag("balance"), "batch sizes differ by more than one: %r"
                    % sizes))
    # ---- the crop is deleted and the same Crop object sown again; then a
    # Crop rebuilt from disk (farmer un-pickled from the settings) sows the
    # same work again: numbers and partition as the first time ---------------
    if case.get("again"):
        def verify(label, c_live):
            c5 = xyz.Crop(name="c7", parent_dir=d)
            if (c_live.num_batches, c5.num_batches, c5.num_sown_batches) != (
                    B, B, B):
                vio.append((tag(label + "-count"),
                            "%s: the crop reports num_batches=%r (reloaded "
                            "%r, sown files %r), expected %d" % (
                                label, c_live.num_batches, c5.num_batches,
                                c5.num_sown_batches, B)))
                return
            g5 = collections.Counter()
            sz = []
            for i in range(1, B + 1):
                with xfn.CallLog() as log:
                    grow(i, crop=c5, fn=f, verbosity=0)
                g5.update(log.encs())
                sz.append(len(log.calls))
            if g5 != want or sorted(sz) != sorted(sizes):
                vio.append((tag(label + "-partition"),
                            "%s: batches hold %r, a direct run passes %r; "
                            "sizes %r (first sow %r)" % (
                                label, list((g5 - want).elements())[:2],
                                list((want - g5).elements())[:2], sz, sizes)))

        try:
            crop.delete_all()
            sow()
            verify("deleted-and-sown-again", crop)
            crop6 = xyz.Crop(name="c7", parent_dir=d)
            keep = crop
            crop = crop6
            sow()
            crop = keep
            verify("sown-again-by-a-reloaded-crop", crop6)
        except Exception as e:
            vio.append((tag("again-raised:" + type(e).__name__),
                        "sowing again after delete_all / through a reloaded "
                        "Crop raised %r" % e))
    # ---- the farmer's stored constants are changed and the same Crop object
    # is sown again: the batches hold what a direct run passes *now* ---------
    if farmer and (case.get("resow") or const == "farmer-extra"):
        if const == "farmer-extra":
            # (the farmer is left as it is; this time nothing is given for
            # the sow alone)
            override = sow_consts = None
        else:
            runner.constants = dict(constants, k=8)
            runner.resources = {"r": 10}
            ref["constants"] = dict(constants, k=8)
            ref["resources"] = {"r": 10}
        with xfn.CallLog() as direct2:
            direct_run()
        want2 = collections.Counter(direct2.encs())
        try:
            sow()
            crop3 = xyz.Crop(name="c7", parent_dir=d)
            got2 = collections.Counter()
            with xfn.CallLog() as log:
                for i in range(1, crop3.num_batches + 1):
                    grow(i, crop=crop3, fn=f, verbosity=0)
            got2.update(log.encs())
            if got2 != want2:
                vio.append((tag("resow-partition"),
                            "after changing the farmer's constants and sowing "
                            "again the batches hold %r, a direct run passes %r"
                            % (list((got2 - want2).elements())[:2],
                               list((want2 - got2).elements())[:2])))
        except Exception as e:
            vio.append((tag("resow-raised:" + type(e).__name__),
                        "sowing the same Crop object again raised %r" % e))
    # ---- the same Crop object sown again with exactly one batch less work:
    # either refused (the remembered batch settings no longer fit) or the
    # new numbers and partition are right ------------------------------------
    n2 = None
    if kind == "cases" and not farmer:
        if mode == "batchsize" and n - req >= 1:
            n2 = n - req
        elif mode == "num_batches" and req <= n and n % req == 0 and \
                n - n // req >= 1:
            n2 = n - n // req
    if n2 is not None:
        _, fa2, cs2 = build_inputs(n2, "cases")
        dc2 = [tuple(c) for c in cs2]
        with xfn.CallLog() as direct3:
            xyz.case_runner(f, fa2, list(dc2), constants=dict(constants),
                            verbosity=0)
        want3 = collections.Counter(direct3.encs())
        try:
            crop.sow_cases(fa2, list(dc2), constants=dict(constants)
                           if constants else None, verbosity=0)
            refused = False
        except ValueError:
            refused = True
        except Exception as e:
            refused = True
            vio.append((tag("less-raised:" + type(e).__name__),
                        "sowing %d settings after %d raised %r" % (n2, n, e)))
        if not refused:
            B2 = math.ceil(n2 / req) if mode == "batchsize" else min(req, n2)
            c4 = xyz.Crop(name="c7", parent_dir=d)
            got3 = collections.Counter()
            if (crop.num_batches, c4.num_batches, c4.num_sown_batches) != (
                    B2, B2, B2):
                vio.append((tag("less-count"),
                            "after sowing %d settings over %d the crop "
                            "reports num_batches=%r (reloaded %r, sown files "
                            "%r), expected %d" % (
                                n2, n, crop.num_batches, c4.num_batches,
                                c4.num_sown_batches, B2)))
            else:
                with xfn.CallLog() as log:
                    for i in range(1, B2 + 1):
                        grow(i, crop=c4, fn=f, verbosity=0)
                got3.update(log.encs())
                if got3 != want3:
                    vio.append((tag("less-partition"),
                                "after sowing %d settings over %d the batches "
                                "do not partition the direct run" % (n2, n)))
    # ---- a new Crop object that is told not to load what is on disk
    # (autoload=False) sows the same work with one batch more over the
    # existing crop: the numbers and the partition are the requested ones ----
    if not farmer and B < n and core.pick([n, mode, req, kind, "noauto"], 3) \
            == 0:
        try:
            old_ = xyz.Crop(name="c7", parent_dir=d)
            if old_.is_prepared():
                old_.delete_all()
            keep = crop
            crop = xyz.Crop(fn=f, name="c7", parent_dir=d, shuffle=(
                shuffle if kind in ("cases", "mix2", "cases1") else False), **kws)
            skw_keep, skw = skw, {}
            sow()
            crop = xyz.Crop(fn=f, name="c7", parent_dir=d, autoload=False,
                            shuffle=(shuffle if kind in ("cases", "mix2", "cases1")
                                     else False), num_batches=B + 1)
            sow()
            c7 = xyz.Crop(name="c7", parent_dir=d)
            rep7 = (crop.num_batches, c7.num_batches, c7.num_sown_batches)
            crop, skw = keep, skw_keep
            if rep7 != (B + 1, B + 1, B + 1):
                vio.append((tag("noautoload-count"),
                            "Crop(autoload=False, num_batches=%d) sown over "
                            "a crop of %d batches reports num_batches=%r "
                            "(reloaded %r, sown files %r)" % (
                                (B + 1, B) + rep7)))
            else:
                g7 = collections.Counter()
                sz7 = []
                for i in range(1, B + 2):
                    with xfn.CallLog() as log:
                        grow(i, crop=c7, fn=f, verbosity=0)
                    g7.update(log.encs())
                    sz7.append(len(log.calls))
                if g7 != want or max(sz7) - min(sz7) > 1 or min(sz7) == 0:
                    vio.append((tag("noautoload-partition"),
                                "Crop(autoload=False, num_batches=%d) sown "
                                "over an existing crop: batch sizes %r, "
                                "missing %r extra %r" % (
                                    B + 1, sz7,
                                    list((want - g7).elements())[:2],
                                    list((g7 - want).elements())[:2])))
        except Exception as e:
            vio.append((tag("noautoload-raised:" + type(e).__name__),
                        "sowing through Crop(autoload=False) over an existing "
                        "crop raised %r" % e))
    return {
        "nontrivial": n >= 2 and B >= 2,
        "outcome": "B=%d,sizes=%s" % (B, sorted(set(sizes))),
        "violations": vio,
    }
