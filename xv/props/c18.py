"""C18 - infiniplot draws each data slice once, correctly styled and placed."""
import itertools

from xv import core

ID = "C18"
LEVEL = "exploration"
RULE = (
    "datasets with x(3) and 1-4 further dimensions of sizes 1-3 (numeric and "
    "string coordinates) whose y values encode their own coordinates; NaN "
    "patterns none / one point / one whole slice / one whole coordinate of a "
    "mapped dimension; every injective assignment of up to 4 dimensions "
    "(quick: all for <= 2 dimensions, every second for 3, every 24th for 4) "
    "to {color, hue, marker, linestyle, "
    "linewidth, markersize, row, col}, fused dimensions, explicit orders, "
    "join_across_missing, aggregation with each error-range option and "
    "method, histogram mode (bins None / int / edges, density on / off), "
    "heat-map mode with and without palette and with row / col; non-trivial = "
    ">= 2 drawn slices"
)
ASSUMPTIONS = [
    "the dataset in which every value is NaN is excluded (no panel to draw "
    "in); all-NaN slices and all-NaN coordinates stay in",
    "style distinctness is only required while the default style list still "
    "has distinct entries (15 markers, 6 line styles, linspace widths / "
    "sizes, auto colours)",
    "without a palette the heat map encodes values as hue / saturation: only "
    "equality of equal cells, grey for missing cells and the cell layout are "
    "checked there; with a palette the mesh values are compared exactly",
]

PROPS = ["color", "hue", "marker", "linestyle", "linewidth", "markersize",
         "row", "col"]
XS = [1.0, 2.0, 4.0]
NUMC = [[0.5, 1.5, 2.5, 3.5, 4.5, 5.5], [10, 30, 20, 50, 40, 60], [7, 8, 9],
        [1, 2, 3]]
STRC = [["q", "p", "zz", "r", "s", "t"], ["u", "w", "v", "a", "c", "b"],
        ["k", "j", "l"], ["m", "o", "n"]]


def assignments(k, tier):
    allp = list(itertools.permutations(PROPS, k))
    if k <= 2:
        return allp
    if k == 3:
        return allp if tier == "thorough" else allp[::2]
    return allp if tier == "thorough" else allp[::24]


NONE_STYLES = ("", " ", "None", "none", None)


def visible(line):
    a = line.get_alpha()
    if not line.get_visible() or (a is not None and a <= 0):
        return False
    stroke = line.get_linestyle() not in NONE_STYLES and \
        line.get_linewidth() > 0
    marks = line.get_marker() not in NONE_STYLES and line.get_markersize() > 0
    return bool(stroke or marks)


def all_styles(line):
    return (str([round(float(v), 9) for v in line.get_ydata()]),) + tuple(
        str(line_style(line, p)) for p in (
            "color", "marker", "linestyle", "linewidth", "markersize")) + (
        str(line.get_alpha()), str(line.get_markeredgecolor()))


def cases(tier, seed):
    j = 0
    shapes = {1: [(3,), (2,)], 2: [(2, 3), (3, 2), (1, 2)],
              3: [(2, 2, 2), (3, 2, 1)], 4: [(2, 2, 1, 2)]}
    for k in (1, 2, 3, 4):
        for assign in assignments(k, tier):
            for shp in shapes[k]:
                for nanp in ("none", "point", "slice", "coord", "zero", "lone",
                             "inf"):
                    if nanp == "coord" and shp[0] == 1:
                        continue  # (would leave a dataset without any data)
                    j += 1
                    hk = ["lines", list(shp), list(assign), nanp]
                    if tier == "quick" and core.pick(hk + ["thin"], 3):
                        continue
                    yield {"mode": "lines", "shape": list(shp),
                           "assign": list(assign), "nan": nanp,
                           "ctypes": [core.pick(hk + ["ct", i], 2)
                                      for i in range(k)],
                           "join": core.pick(hk + ["join"], 4) == 0,
                           # explicit order: 1 = all values reordered, 2 = a
                           # reordered selection of them
                           "order": (1 + core.pick(hk + ["ord2"], 2))
                           if core.pick(hk + ["ord"], 4) == 0 else 0,
                           # the order the variable's dimensions are stored
                           # in (vs. the dataset's own dimension order)
                           "stored": core.pick(hk + ["stored"], 3),
                           "unmapped": core.pick(hk + ["unm"], 7) == 0
                           and k >= 2,
                           # the same call made again after other plots
                           # were drawn in this process
                           "prior": core.pick(hk + ["prior"], 4) == 0}
    # a hue dimension with five values next to a colour dimension (the hues
    # wrap around the colour circle)
    for assign, shp in ((("hue", "color"), (5, 2)), (("color", "hue"), (2, 5)),
                        (("hue", "color"), (6, 3))):
        for nanp in ("none", "point"):
            yield {"mode": "lines", "shape": list(shp),
                   "assign": list(assign), "nan": nanp, "ctypes": [0, 1],
                   "join": False, "order": 0, "stored": 0, "unmapped": False,
                   "prior": False}
    # x is itself a result (a data variable that varies from line to line,
    # linked along a dimension): a point is drawn where x and y both exist
    for p, nanp, join in itertools.product(
            ("color", "row", "marker"),
            ("none", "x", "y", "xy-diff", "xy-same", "x-all"), (False, True)):
        yield {"mode": "xvar", "prop": p, "nan": nanp, "join": join}
    # fused dimensions
    for p, nanp in itertools.product(("color", "marker", "linestyle", "row"),
                                     ("none", "point")):
        yield {"mode": "fused", "prop": p, "nan": nanp}
        yield {"mode": "fused", "prop": p, "nan": nanp, "rev": True}
    # aggregation
    for agg, err, meth, style in itertools.product(
            (True, "named"), (0.5, 0.9, "std", "stderr"), ("median", "mean"),
            (None, "bars")):
        for nanp in ("none", "point"):
            yield {"mode": "aggregate", "agg": agg, "err": err,
                   "method": meth, "style": style, "nan": nanp}
            yield {"mode": "aggregate", "agg": agg, "err": err,
                   "method": meth, "style": style, "nan": nanp, "two": True}
    # ... of a dataset none of whose dimensions is mapped to anything (values
    # not in order along the aggregated dimension)
    for err, meth, nanp in itertools.product(
            (0.5, "std"), ("median", "mean"), ("none", "point")):
        yield {"mode": "aggregate", "agg": True, "err": err, "method": meth,
               "style": None, "nan": nanp, "nomap": True}
    # histogram
    for bins, dens, mapped, nanp in itertools.product(
            (None, 4, "edges"), (True, False), (None, "color", "row"),
            ("none", "point")):
        yield {"mode": "hist", "bins": bins, "density": dens, "mapped": mapped,
               "nan": nanp}
    # heat map
    for pal, grid, agg, nanp, layout in itertools.product(
            (None, "viridis"), (None, "row", "col", "both"), (False, True),
            ("none", "point"), ("yx23", "xy23", "xy33", "yx33")):
        yield {"mode": "heat", "palette": pal, "grid": grid, "agg": agg,
               "nan": nanp, "layout": layout}


def worker_init():
    import matplotlib

    matplotlib.use("Agg")
    import xyzpy  # noqa


def encode(ix, idx):
    return 1.0 + ix + sum(i * 10.0 ** (n + 1) for n, i in enumerate(idx))


def decode(v, ndim):
    v = int(round(v - 1.0))
    ix = v % 10
    idx = []
    for n in range(ndim):
        idx.append((v // 10 ** (n + 1)) % 10)
    return ix, tuple(idx)


def make_ds(shape, ctypes, nanp, nan_dim=0):
    import numpy as np
    import xarray as xr

    k = len(shape)
    dims = ["d%d" % i for i in range(k)]
    y = np.empty(tuple(shape) + (3,))
    for idx in np.ndindex(*shape):
        for ix in range(3):
            y[idx + (ix,)] = encode(ix, idx)
    if nanp == "point":
        y[(0,) * k + (1,)] = np.nan
    elif nanp == "inf":
        # an infinite value is a value: the line carries it (whether or not
        # it can be shown), it is not a gap to be joined across
        y[(0,) * k + (1,)] = np.inf
    elif nanp == "slice":
        y[(0,) * k] = np.nan
    elif nanp == "zero":
        # one slice whose values are all exactly zero (it has data)
        y[(0,) * k] = 0.0
    elif nanp == "coord":
        sl = [slice(None)] * (k + 1)
        sl[nan_dim] = 0
        y[tuple(sl)] = np.nan
    elif nanp == "lone":
        # one coordinate keeps a single value (it still has data)
        keep = y[(0,) * k + (1,)]
        sl = [slice(None)] * (k + 1)
        sl[nan_dim] = 0
        y[tuple(sl)] = np.nan
        y[(0,) * k + (1,)] = keep
    coords = {"x": XS}
    for i, (d, s) in enumerate(zip(dims, shape)):
        coords[d] = (STRC if ctypes[i] else NUMC)[i][:s]
    return xr.Dataset({"y": (dims + ["x"], y)}, coords=coords), dims


def check_case(case):
    import matplotlib.pyplot as plt

    try:
        return {"lines": check_lines, "fused": check_fused,
                "xvar": check_xvar,
                "aggregate": check_agg, "hist": check_hist,
                "heat": check_heat}[case["mode"]](case)
    finally:
        plt.close("all")


def plot(key, ds, *a, **kw):
    import xyzpy as xyz

    try:
        with core.Silence():
            fig, axs = xyz.infiniplot(ds, *a, show_and_close=False, **kw)
        return fig, axs, None
    except core.HarnessError:
        raise
    except Exception as e:
        return None, None, (key("raised:" + type(e).__name__),
                            "infiniplot(%s) raised %r" % (
                                ", ".join("%s=%r" % kv for kv in kw.items()), e))


def line_style(line, prop):
    import matplotlib.colors as mc

    if prop in ("color", "hue"):
        return tuple(round(c, 6) for c in mc.to_rgba(line.get_color()))
    if prop == "marker":
        return line.get_marker()
    if prop == "linestyle":
        return (line.get_linestyle(), getattr(line, "_unscaled_dash_pattern",
                                              None))
    if prop == "linewidth":
        return round(line.get_linewidth(), 6)
    if prop == "markersize":
        return round(line.get_markersize(), 6)
    return None


def check_lines(case):
    import numpy as np

    shape, assign = case["shape"], case["assign"]
    k = len(shape)
    nan_dim = 0
    ds, dims = make_ds(shape, case["ctypes"], case["nan"], nan_dim)
    stored = case.get("stored", 0)
    if stored == 1:
        # variable stored as (..., d1, d0, x); the dataset lists d0, d1, ...
        ds = ds["y"].transpose(*(dims[::-1] + ["x"])).to_dataset(name="y")
    elif stored == 2:
        ds["y"] = ds["y"].transpose(*(["x"] + dims[1:] + dims[:1]))
    if core.pick([shape, assign, case["nan"], "stray"], 3) == 0:
        # the dataset also holds a result that lives on a dimension the
        # plotted variable does not have (a typical multi-output harvest)
        import xarray as xr
        ds["other"] = xr.DataArray(
            np.arange(2.0 * shape[0]).reshape(shape[0], 2),
            dims=(dims[0], "w"), coords={"w": [5, 6]})
    before = ds.copy(deep=True)
    vio = []

    def key(sym):
        return "C18|lines|%s|%s" % ("+".join(sorted(assign)), sym)

    mapping = dict(zip(dims, assign))
    if case.get("unmapped"):
        # leave the last dimension unmapped: it is iterated all the same
        mapping.pop(dims[-1])
    kw = {p: d for d, p in mapping.items()}
    orders = {}
    if case["order"]:
        d0 = dims[0]
        if d0 in mapping:
            vals = ds[d0].values.tolist()
            if case["order"] == 1:
                # every value, reordered (the first coordinate - the one the
                # "coord" NaN pattern empties - in the middle / at the end)
                vals = vals[1:2] + vals[:1] + vals[2:]
            else:
                # a selection: first and last only (with fewer than three
                # values: all of them, so that something is left to draw)
                vals = vals[:1] + vals[2:] if len(vals) > 2 else vals[::-1]
            kw[mapping[d0] + "_order"] = vals
            orders[d0] = vals
    if case["join"]:
        kw["join_across_missing"] = True
    first_styles = None
    if case.get("prior"):
        import matplotlib.pyplot as plt
        # unrelated plots (everything mapped with a legend; constant
        # styles), this plot, the unrelated ones in another order, then this
        # plot again: it is judged, and must look the same both times
        # (whatever was drawn before this case started, both reference points
        # are reached through a fixed sequence of calls)
        pds, _ = make_ds((2, 2), [0, 1], "none")
        others = ({"color": "d0", "marker": "d1"},
                  {"linestyle": "d0", "hue": "d1"},
                  {"row": "d0", "color": "red", "linewidth": 4.0,
                   "marker": "s", "markersize": 11.0, "linestyle": ":"})
        for pkw in others:
            _, _, err = plot(key, pds, "x", "y", **pkw)
            if err:
                return fin(case, [err])
        fig, axs, err = plot(key, ds, "x", "y", **kw)
        if err:
            return fin(case, [err])
        first_styles = sorted(all_styles(l) for ax in axs.flat
                              for l in ax.lines)
        for pkw in others[::-1]:
            _, _, err = plot(key, pds, "x", "y", **pkw)
            if err:
                return fin(case, [err])
        plt.close("all")
    fig, axs, err = plot(key, ds, "x", "y", **kw)
    if err:
        return fin(case, [err])
    if not ds.identical(before):
        vio.append((key("dataset-modified"), "plotting changed the dataset"))
    if first_styles is not None:
        again = sorted(all_styles(l) for ax in axs.flat for l in ax.lines)
        if again != first_styles:
            vio.append((key("second-call"), "the same plot drawn again after "
                        "other plots has other line styles: %r vs %r" % (
                            [a for a in again if a not in first_styles][:2],
                            [a for a in first_styles if a not in again][:2])))
    for ax in axs.flat:
        for line in ax.lines:
            if not visible(line):
                vio.append((key("invisible"), "a line is drawn with neither "
                            "a visible stroke nor visible markers: %r"
                            % (all_styles(line),)))
                break
    yv = before["y"].transpose(*(dims + ["x"])).values
    # which coordinates of a *mapped* dimension survive dropna(how='all')
    alive = {}
    for i, d in enumerate(dims):
        other = tuple(a for a in range(k + 1) if a != i)
        has = ~np.all(np.isnan(yv), axis=other)
        idxs = [n for n in range(shape[i]) if has[n] or d not in mapping]
        if d in orders:
            lab = before[d].values.tolist()
            idxs = [lab.index(v) for v in orders[d] if lab.index(v) in idxs]
        alive[d] = idxs
    row_d = next((d for d, p in mapping.items() if p == "row"), None)
    col_d = next((d for d, p in mapping.items() if p == "col"), None)
    nr = len(alive[row_d]) if row_d else 1
    nc = len(alive[col_d]) if col_d else 1
    if axs.shape != (nr, nc):
        vio.append((key("panels"), "axes grid %r, expected %r (NaN pattern %s)"
                    % (axs.shape, (nr, nc), case["nan"])))
        return fin(case, vio)
    # expected slices
    expected = {}
    for idx in np.ndindex(*shape):
        if any(idx[i] not in alive[d] for i, d in enumerate(dims)):
            continue
        sl = yv[idx]
        if np.all(np.isnan(sl)):
            continue
        i_ax = alive[row_d].index(idx[dims.index(row_d)]) if row_d else 0
        j_ax = alive[col_d].index(idx[dims.index(col_d)]) if col_d else 0
        if case["join"]:
            ok = ~np.isnan(sl)
            pts = (np.array(XS)[ok], sl[ok])
        else:
            pts = (np.array(XS), sl)
        expected[idx] = (i_ax, j_ax, pts)
    seen = {}
    for (i, j), ax in np.ndenumerate(axs):
        for line in ax.lines:
            xd, yd = np.asarray(line.get_xdata(), float), np.asarray(
                line.get_ydata(), float)
            fin_ = yd[np.isfinite(yd)]
            if not len(fin_):
                vio.append((key("empty-line"), "an all-NaN line was drawn"))
                continue
            ix0 = int(np.nonzero(np.isfinite(yd))[0][0])
            if case["nan"] == "zero" and not np.any(fin_):
                idx = (0,) * k  # (the all-zero slice)
            else:
                _, idx = decode(fin_[0], k)
            if idx in seen:
                vio.append((key("drawn-twice"), "slice %r drawn more than once"
                            % (idx,)))
                continue
            seen[idx] = (i, j, line)
            if idx not in expected:
                vio.append((key("unexpected-line"), "a line for slice %r which "
                            "has no data / was dropped" % (idx,)))
                continue
            ei, ej, (ex, ey) = expected[idx]
            if (i, j) != (ei, ej):
                vio.append((key("panel"), "slice %r drawn in panel %r, "
                            "belongs in %r" % (idx, (i, j), (ei, ej))))
            if xd.shape != ex.shape or not np.array_equal(xd, ex) or not \
                    np.array_equal(yd, ey, equal_nan=True):
                vio.append((key("points"), "slice %r: drawn x=%r y=%r, data "
                            "x=%r y=%r (join_across_missing=%r)" % (
                                idx, xd.tolist(), yd.tolist(), ex.tolist(),
                                ey.tolist(), case["join"])))
    missing = [idx for idx in expected if idx not in seen]
    if missing:
        vio.append((key("not-drawn"), "slices %r have data but were not drawn"
                    % (missing[:3],)))
    # styles
    for d, p in mapping.items():
        if p in ("row", "col"):
            continue
        di = dims.index(d)
        groups = {}
        for idx, (_, _, line) in seen.items():
            sty = line_style(line, p)
            if p in ("color", "hue"):
                # colour may depend on both a hue and a colour dimension
                cd = [dims.index(dd) for dd, pp in mapping.items()
                      if pp in ("color", "hue")]
                gk = tuple(idx[c] for c in cd)
            else:
                gk = idx[di]
            groups.setdefault(gk, set()).add(sty)
        for gk, stys in groups.items():
            if len(stys) != 1:
                vio.append((key("style-not-shared"),
                            "%s: lines with %s index %r have styles %r"
                            % (p, d, gk, sorted(map(str, stys)))))
                break
        firsts = [next(iter(s)) for s in groups.values()]
        limit = {"marker": 15, "linestyle": 6}.get(p, 7)
        if p in ("color", "hue") and {"color", "hue"} <= set(mapping.values()):
            # (every hue gets a colour map of its own)
            limit = 18
        if len(groups) <= limit and len(set(map(str, firsts))) != len(groups):
            vio.append((key("style-not-distinct"),
                        "%s: %d coordinates of %s share styles %r"
                        % (p, len(groups), d, sorted(map(str, firsts)))))
    # panel titles name the coordinate
    for (i, j), ax in np.ndenumerate(axs):
        texts = " | ".join(t.get_text() for t in ax.texts)
        if col_d:
            v = before[col_d].values.tolist()[alive[col_d][j]]
            if "=%s" % v not in texts:
                vio.append((key("title"), "panel %r not titled with %s=%s: %r"
                            % ((i, j), col_d, v, texts)))
        if row_d:
            v = before[row_d].values.tolist()[alive[row_d][i]]
            if "=%s" % v not in texts:
                vio.append((key("title"), "panel %r not titled with %s=%s: %r"
                            % ((i, j), row_d, v, texts)))
    return fin(case, vio, len(expected) >= 2)


def check_xvar(case):
    import numpy as np
    import xarray as xr

    na, nt = 3, 5
    yv = np.array([[encode(ix, (i,)) for ix in range(nt)] for i in range(na)])
    xv = np.array([[100.0 * (i + 1) + 2.0 * ix for ix in range(nt)]
                   for i in range(na)])
    nanp = case["nan"]
    if nanp in ("x", "xy-diff"):
        xv[0, 2] = np.nan
    if nanp in ("y", "xy-diff"):
        yv[0, 3] = np.nan
    if nanp == "xy-diff":
        xv[1, 0] = np.nan
    if nanp == "xy-same":
        xv[0, 1] = yv[0, 1] = np.nan
    if nanp == "x-all":
        xv[2, :] = np.nan
    ds = xr.Dataset({"xv": (("a", "t"), xv.copy()), "yv": (("a", "t"), yv.copy())},
                    coords={"a": ["p", "q", "r"], "t": np.arange(nt)})
    before = ds.copy(deep=True)
    vio = []

    def key(sym):
        return "C18|xvar|%s|%s" % (case["prop"], sym)

    kw = {case["prop"]: "a", "xlink": "t"}
    if case["join"]:
        kw["join_across_missing"] = True
    fig, axs, err = plot(key, ds, "xv", "yv", **kw)
    if err:
        return fin(case, [err])
    if not ds.identical(before):
        vio.append((key("dataset-modified"), "plotting changed the dataset"))
    expected = {}
    for i in range(na):
        m = ~np.isnan(xv[i]) & ~np.isnan(yv[i])
        if np.any(m):
            expected[i] = m
    seen = set()
    for ax in axs.flat:
        for line in ax.lines:
            xd = np.asarray(line.get_xdata(), float)
            yd = np.asarray(line.get_ydata(), float)
            vis = np.isfinite(xd) & np.isfinite(yd)
            if not np.any(np.isfinite(yd)):
                vio.append((key("empty-line"), "an all-NaN line was drawn"))
                continue
            _, (i,) = decode(yd[np.isfinite(yd)][0], 1)
            if i in seen:
                vio.append((key("drawn-twice"), "slice %r drawn more than "
                            "once" % i))
                continue
            seen.add(i)
            if i not in expected:
                if np.any(vis):
                    vio.append((key("unexpected-line"), "a line for slice %r "
                                "which has no point with both x and y" % i))
                continue
            m = expected[i]
            if case["join"]:
                good = xd.shape == xv[i][m].shape and np.array_equal(
                    xd, xv[i][m]) and np.array_equal(yd, yv[i][m])
            else:
                good = len(xd) == nt and len(yd) == nt and np.array_equal(
                    vis, m) and np.array_equal(xd[m], xv[i][m]) and \
                    np.array_equal(yd[m], yv[i][m])
            if not good:
                vio.append((key("points"), "slice %r: drawn x=%r y=%r, data "
                            "x=%r y=%r (join_across_missing=%r)" % (
                                i, xd.tolist(), yd.tolist(), xv[i].tolist(),
                                yv[i].tolist(), case["join"])))
    missing = [i for i in expected if i not in seen]
    if missing:
        vio.append((key("not-drawn"), "slices %r have points with both x and "
                    "y but were not drawn" % (missing,)))
    return fin(case, vio, True)


def check_fused(case):
    import numpy as np

    ds, dims = make_ds((2, 2), [0, 1], case["nan"])
    before = ds.copy(deep=True)
    p = case["prop"]
    vio = []

    def key(sym):
        return "C18|fused|%s|%s" % (p, sym)

    # (fused in the order the dataset stores the two dimensions, or the other
    # way round)
    fused = ("d1", "d0") if case.get("rev") else ("d0", "d1")
    fig, axs, err = plot(key, ds, "x", "y", **{p: fused})
    if err:
        return fin(case, [err])
    if not ds.identical(before):
        vio.append((key("dataset-modified"), "plotting changed the dataset"))
    lines = [(ij, l) for ij, ax in np.ndenumerate(axs) for l in ax.lines]
    if len(lines) != 4:
        vio.append((key("count"), "%d lines for 4 fused coordinates"
                    % len(lines)))
    idxs = set()
    stys = set()
    for (ij, l) in lines:
        yd = np.asarray(l.get_ydata(), float)
        _, idx = decode(yd[np.isfinite(yd)][0], 2)
        idxs.add(idx)
        if p == "row":
            stys.add(ij)
        else:
            stys.add(str(line_style(l, p)))
        want = before["y"].values[idx]
        if not np.array_equal(yd, want, equal_nan=True):
            vio.append((key("points"), "slice %r drawn as %r" % (idx,
                                                                yd.tolist())))
        # the name the slice is given: the tuple of its coordinates in the
        # order the dimensions were fused
        cv = {"d0": before["d0"].values.tolist()[idx[0]],
              "d1": before["d1"].values.tolist()[idx[1]]}
        name = repr(tuple(cv[d_] for d_ in fused))
        if p == "row":
            shown = " ".join(t.get_text() for t in axs[ij].texts)
        else:
            shown = str(l.get_label())
        if name not in shown:
            vio.append((key("label"), "slice %r (fused coordinate %s) is "
                        "labelled %r" % (idx, name, shown)))
    if len(idxs) != len(lines) or len(stys) != len(lines):
        vio.append((key("distinct"), "fused coordinates are not drawn once "
                    "each with distinct %s" % p))
    return fin(case, vio, True)


def check_agg(case):
    import numpy as np

    two = bool(case.get("two"))
    if case.get("nomap"):
        import xarray as xr

        ds, dims = make_ds((3,), [0], case["nan"])
        ds["y"] = ds["y"] + xr.DataArray([5.0, -2.0, 1.5], dims="d0")
        before = ds.copy(deep=True)
        vio = []

        def key(sym):
            return "C18|aggregate-unmapped|%s|%s|%s" % (
                case["err"], case["method"], sym)

        fig, axs, err = plot(key, ds, "x", "y", aggregate=True,
                             aggregate_err_range=case["err"],
                             aggregate_method=case["method"])
        if err:
            return fin(case, [err])
        if not ds.identical(before):
            vio.append((key("dataset-modified"), "plotting changed the "
                        "dataset: y along d0 was %r, is %r" % (
                            before["y"].values[:, 0].tolist(),
                            ds["y"].values[:, 0].tolist())))
        fn = np.nanmedian if case["method"] == "median" else np.nanmean
        want = fn(before["y"].transpose("d0", "x").values, axis=0)
        lines = [l for l in axs[0, 0].lines
                 if not str(l.get_label()).startswith("_")] or \
            list(axs[0, 0].lines)
        got = [np.asarray(l.get_ydata(), float) for l in lines]
        if not any(g.shape == want.shape and
                   np.allclose(g, want, equal_nan=True) for g in got):
            vio.append((key("central"), "no line carries the %s over d0 %r: "
                        "lines %r" % (case["method"], want.tolist(),
                                      [g.tolist() for g in got])))
        return fin(case, vio, True)
    if two:
        # two aggregated dimensions (a median of medians is not the median
        # of the pooled values)
        ds, dims = make_ds((3, 2, 3), [0, 0, 0], case["nan"])
        ds["y"] = ds["y"] + 0.5 * (ds["d0"] ** 2) + 0.013 * (ds["d2"] ** 3) \
            + 2.0 * (ds["d0"] > 1) * (ds["d2"] > 7)
    else:
        ds, dims = make_ds((3, 2), [0, 0], case["nan"])
        # make the aggregated dimension vary non-trivially
        ds["y"] = ds["y"] + 0.5 * (ds["d0"] ** 2)
    before = ds.copy(deep=True)
    vio = []

    def key(sym):
        return "C18|aggregate|%s|%s|%s" % (case["err"], case["method"], sym)

    kw = dict(color="d1", aggregate=True if case["agg"] is True else (
                  ["d2", "d0"] if two else "d0"),
              aggregate_err_range=case["err"], aggregate_method=case["method"])
    if case["style"]:
        kw["err_style"] = case["style"]
    fig, axs, err = plot(key, ds, "x", "y", **kw)
    if err:
        return fin(case, [err])
    if not ds.identical(before):
        vio.append((key("dataset-modified"), "plotting changed the dataset"))
    ax = axs[0, 0]
    yv = before["y"].transpose(*(dims + ["x"])).values  # (d0, d1[, d2], x)
    fn = np.nanmedian if case["method"] == "median" else np.nanmean
    if len(ax.lines) < 2:
        vio.append((key("count"), "%d central lines for 2 colour coordinates"
                    % len(ax.lines)))
        return fin(case, vio)
    # (error-bar caps are lines too; the central lines carry the labels)
    data_lines = [l for l in ax.lines
                  if not str(l.get_label()).startswith("_")][:2]
    for j, line in enumerate(data_lines):
        col = yv[:, j].reshape(-1, yv.shape[-1])  # pooled over d0 (and d2)
        want = fn(col, axis=0)
        got = np.asarray(line.get_ydata(), float)
        if not np.allclose(got, want, equal_nan=True):
            vio.append((key("central"), "colour %d: central line %r, %s over "
                        "the aggregated dimension %r" % (
                            j, got.tolist(), case["method"], want.tolist())))
        if case["err"] == "std":
            lo = np.nanmean(col, 0) - np.nanstd(col, 0)
            hi = np.nanmean(col, 0) + np.nanstd(col, 0)
        elif case["err"] == "stderr":
            cnt = np.sum(~np.isnan(col), 0)
            se = np.nanstd(col, 0) / np.sqrt(cnt)
            lo, hi = np.nanmean(col, 0) - se, np.nanmean(col, 0) + se
        else:
            q = case["err"]
            lo = np.nanquantile(col, 0.5 - q / 2, axis=0)
            hi = np.nanquantile(col, 0.5 + q / 2, axis=0)
        if case["style"] is None:
            bands = [c for c in ax.collections
                     if type(c).__name__ in ("PolyCollection",
                                             "FillBetweenPolyCollection")]
            if len(bands) != 2:
                vio.append((key("band-count"), "%d bands" % len(bands)))
                break
            verts = bands[j].get_paths()[0].vertices
            wantpts = {(round(x, 6), round(v, 6)) for x, v in zip(XS, lo)}
            wantpts |= {(round(x, 6), round(v, 6)) for x, v in zip(XS, hi)}
            gotpts = {(round(float(a), 6), round(float(b), 6))
                      for a, b in verts}
            if not wantpts <= gotpts:
                vio.append((key("band"), "colour %d: band %r does not pass "
                            "through the %s range %r .. %r" % (
                                j, sorted(gotpts), case["err"], lo.tolist(),
                                hi.tolist())))
        else:
            conts = ax.containers
            if len(conts) != 2:
                vio.append((key("bar-count"), "%d error bar sets" % len(conts)))
                break
            segs = conts[j].lines[2][0].get_segments()
            got = sorted((round(float(s[0][0]), 6), round(float(s[0][1]), 6),
                          round(float(s[1][1]), 6)) for s in segs)
            want = sorted((round(x, 6), round(float(a), 6), round(float(b), 6))
                          for x, a, b in zip(XS, lo, hi))
            if got != want:
                vio.append((key("bars"), "colour %d: error bars %r, expected "
                            "%r" % (j, got, want)))
    return fin(case, vio, True)


def check_hist(case):
    import numpy as np
    import xarray as xr

    rng = np.random.RandomState(5)
    v = rng.uniform(0, 10, size=(2, 9)) + np.array([[0.0], [3.0]])
    if case["nan"] == "point":
        v[0, 0] = np.nan
    ds = xr.Dataset({"v": (("g", "s"), v)}, coords={"g": ["a", "b"]})
    before = ds.copy(deep=True)
    vio = []

    def key(sym):
        return "C18|hist|bins=%s|%s" % (
            "edges" if case["bins"] == "edges" else case["bins"], sym)

    bins = case["bins"]
    if bins == "edges":
        bins = [0.0, 2.5, 5.0, 9.0, 13.0]
    kw = dict(bins=bins, bins_density=case["density"])
    if case["mapped"]:
        kw[case["mapped"]] = "g"
    fig, axs, err = plot(key, ds, "v", **kw)
    if err:
        return fin(case, [err])
    if not ds.identical(before):
        vio.append((key("dataset-modified"), "plotting changed the dataset"))
    allv = v[np.isfinite(v)]
    if case["bins"] is None:
        nb = min(max(3, int(v.shape[1] ** 0.5 if case["mapped"]
                            else v.size ** 0.5)), 50)
        edges = np.linspace(allv.min(), allv.max(), nb + 1)
    elif case["bins"] == 4:
        edges = np.linspace(allv.min(), allv.max(), 5)
    else:
        edges = np.array(bins)
    centres = (edges[1:] + edges[:-1]) / 2
    series = [v[0], v[1]] if case["mapped"] else [v.ravel()]
    lines = [l for _, ax in np.ndenumerate(axs) for l in ax.lines]
    if len(lines) != len(series):
        vio.append((key("count"), "%d histogram lines for %d slices"
                    % (len(lines), len(series))))
        return fin(case, vio)
    for l, s in zip(lines, series):
        s = s[np.isfinite(s)]
        want, _ = np.histogram(s, bins=edges, density=case["density"])
        gx, gy = np.asarray(l.get_xdata(), float), np.asarray(l.get_ydata(),
                                                              float)
        if not (gx.shape == centres.shape and np.allclose(gx, centres)
                and np.allclose(gy, want)):
            vio.append((key("values"), "drawn x=%r y=%r, numpy: centres %r "
                        "%s %r" % (gx.tolist(), gy.tolist(), centres.tolist(),
                                   "density" if case["density"] else "counts",
                                   want.tolist())))
    return fin(case, vio, len(series) >= 2)


def check_heat(case):
    import numpy as np
    import xarray as xr

    grid = case["grid"]
    nr = 2 if grid in ("row", "both") else 1
    nc = 2 if grid in ("col", "both") else 1
    na = 2 if case["agg"] else 1
    layout = case.get("layout", "yx23")
    ny, nx = (3, 3) if layout.endswith("33") else (2, 3)
    z = np.empty((ny, nx, nr, nc, na))
    for idx in np.ndindex(*z.shape):
        z[idx] = 1.0 + idx[1] + 10 * idx[0] + 100 * idx[2] + 1000 * idx[3] \
            + 0.5 * idx[4]
    # (one cell holds the same value in every panel, whatever else the
    # panel holds: the colour scale is one for the whole figure)
    z[ny - 1, nx - 1] = 2.5
    if case["nan"] == "point":
        z[0, 1] = np.nan
    xs_, ys_ = [1.0, 2.0, 3.0][:nx], [10.0, 20.0, 30.0][:ny]
    # (the coordinates may be stored in descending order)
    cord = core.pick([case["palette"], grid, case["agg"], case["nan"], layout,
                      "cord"], 3)
    if cord == 1:
        ys_ = ys_[::-1]
    elif cord == 2:
        xs_ = xs_[::-1]
    ds = xr.Dataset({"zz": (("yy", "xx", "r", "c", "rep"), z)},
                    coords={"xx": xs_, "yy": ys_,
                            "r": [5, 6][:nr], "c": ["u", "v"][:nc]})
    if layout.startswith("xy"):
        # the variable is stored with x before y
        ds = ds.transpose("xx", "yy", "r", "c", "rep")
    if nr == 1:
        ds = ds.isel(r=0, drop=True)
    if nc == 1:
        ds = ds.isel(c=0, drop=True)
    if na == 1:
        ds = ds.isel(rep=0, drop=True)
    before = ds.copy(deep=True)
    vio = []

    def key(sym):
        return "C18|heat|%s|%s|%s" % (case["palette"] or "nopalette",
                                      grid or "single", sym)

    kw = {}
    if nr == 2:
        kw["row"] = "r"
    if nc == 2:
        kw["col"] = "c"
    if case["palette"]:
        kw["palette"] = case["palette"]
    if case["agg"]:
        kw["aggregate"] = True
    fig, axs, err = plot(key, ds, "xx", "yy", "zz", **kw)
    if err:
        return fin(case, [err])
    if not ds.identical(before):
        vio.append((key("dataset-modified"), "plotting changed the dataset"))
    if axs.shape != (nr, nc):
        vio.append((key("panels"), "axes grid %r, expected %r"
                    % (axs.shape, (nr, nc))))
        return fin(case, vio)
    colour_of = {}
    for (i, j), ax in np.ndenumerate(axs):
        meshes = [c for c in ax.collections if type(c).__name__ == "QuadMesh"]
        if len(meshes) != 1:
            vio.append((key("mesh-count"), "%d meshes in panel %r"
                        % (len(meshes), (i, j))))
            continue
        want = np.nanmedian(z[:, :, i, j, :], axis=-1)
        co = meshes[0].get_coordinates()
        xe, ye = co[0, :, 0], co[:, 0, 1]
        # cell (a, b) of the mesh is centred on which labels?
        xc = [(xe[n] + xe[n + 1]) / 2 for n in range(len(xe) - 1)]
        yc = [(ye[n] + ye[n + 1]) / 2 for n in range(len(ye) - 1)]
        try:
            ix = [min(range(nx), key=lambda k_: abs(xs_[k_] - c)) for c in xc]
            iy = [min(range(ny), key=lambda k_: abs(ys_[k_] - c)) for c in yc]
        except ValueError:
            ix = iy = []
        if sorted(ix) != list(range(nx)) or sorted(iy) != list(range(ny)) \
                or any(abs(xs_[k_] - c) > 0.26 for k_, c in zip(ix, xc)) \
                or any(abs(ys_[k_] - c) > 2.6 for k_, c in zip(iy, yc)):
            vio.append((key("mesh-coords"), "cells centred on %r x %r are not "
                        "the coordinates %r x %r" % (xc, yc, xs_, ys_)))
            continue
        # (the expected values in the order the mesh lists its cells)
        want = want[np.ix_(iy, ix)]
        arr = np.asarray(meshes[0].get_array())
        if case["palette"]:
            got = np.ma.masked_invalid(np.asarray(arr, float).reshape(ny, nx))
            w = np.ma.masked_invalid(want)
            if not (np.array_equal(np.ma.getmaskarray(got),
                                   np.ma.getmaskarray(w))
                    and np.allclose(got.filled(0), w.filled(0))):
                vio.append((key("values"), "panel %r mesh %r, data %r"
                            % ((i, j), got.tolist(), w.tolist())))
        else:
            cols = arr.reshape(ny, nx, -1)
            nanc = np.isnan(want)
            for a, b in itertools.product(range(ny), range(nx)):
                if nanc[a, b] and not np.allclose(cols[a, b],
                                                  (0.5, 0.5, 0.5, 0.5)):
                    vio.append((key("missing-colour"), "missing cell not grey"))
            flat = [(round(float(want[a, b]), 6), tuple(np.round(cols[a, b], 6)))
                    for a, b in itertools.product(range(ny), range(nx))
                    if not nanc[a, b]]
            if any(not all(0.0 <= x <= 1.0 for x in c) for _, c in flat):
                vio.append((key("colours"), "a cell that has data is drawn "
                            "in a colour that is not a colour: %r" % flat[:3]))
                continue
            # the same value must get the same colour in every panel: compare
            # with the first panel's mapping
            for v, c in flat:
                if colour_of.setdefault(v, c) != c:
                    vio.append((key("colours"), "value %r drawn in two "
                                "colours" % v))
                    break
            if len({c for _, c in flat}) != len({v for v, _ in flat}):
                vio.append((key("colours"), "distinct values do not map to "
                            "distinct colours: %r" % flat))
    return fin(case, vio, True)


def fin(case, vio, nontrivial=False):
    return {"nontrivial": bool(nontrivial),
            "outcome": "%s:%s" % (case["mode"], "ok" if not vio else "bad"),
            "violations": vio}
