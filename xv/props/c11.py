"""C11 - concurrent growers and a waiting reaper agree under every
interleaving of their file operations.

Stateless exploration (xv.sched): growers, a reap(wait=True) and an optional
progress poller are real threads running the real entry points on a real
crop directory; every visible file operation is a scheduling point and all
schedules are enumerated up to sleep-set (partial-order) equivalence.
"""
import os
import re
import pickle

from xv import core, fsseam, sched, cmp, fn as xfn

ID = "C11"
LEVEL = "model_checking"
RULE = (
    "configurations = growers (distinct batches or the same batch twice) || "
    "reap(wait=True, clean_up=False) [|| progress poller] on crops of 1-3 "
    "batches, results published in 1-3 raw writes; all interleavings of the "
    "visible file operations (ops on paths some actor mutates) enumerated "
    "depth-first with sleep sets; non-trivial = complete executions"
)
ASSUMPTIONS = [
    "file-system operations are atomic per system call and sequentially "
    "consistent (local POSIX file system); rename is atomic",
    "actors share no Python objects (each builds its own Crop from the "
    "directory), so the file operations are the only shared accesses",
    "sleep sets use a static dependence relation: same path with a mutation; "
    "directory listing vs entry creation/removal; a sleeping poll loop is "
    "enabled by any mutation",
    "clean_up=False decides the property (with clean-up a straggling "
    "duplicate grower racing rmtree is a different hazard)",
]

NAME = "k"


def norm(rel, aid):
    # temporary names are unique per writer and differ from run to run
    return fsseam.norm_rel(rel, "A%d" % aid)


def _crop(d):
    import xyzpy as xyz

    return xyz.Crop(name=NAME, parent_dir=d)


# configuration: name -> dict(B, growers=[batch ids], entry, poller rounds,
#                             chunks, preempt (None = exhaustive))
def configs(tier):
    cs = []

    def add(name, **kw):
        kw.setdefault("entry", "grow")
        kw.setdefault("poll", 0)
        kw.setdefault("chunks", 2)
        kw.setdefault("preempt", None)
        kw.setdefault("kind", "raw")
        kw.setdefault("queries", ("num_results", "ready", "missing"))
        kw.setdefault("clean_up", False)
        kw["name"] = name
        cs.append(kw)

    for ch in (1, 2, 3):
        add("a-B1-c%d" % ch, B=1, growers=[1], chunks=ch)
    add("a-B1-cropgrow", B=1, growers=[1], entry="cropgrow")
    add("a-B1-runner", B=1, growers=[1], kind="runner")
    add("a-B1-sampler", B=1, growers=[1], kind="sampler")
    add("b-B2", B=2, growers=[1, 2])
    add("b-B2-rev", B=2, growers=[2, 1], chunks=1)
    add("b-B2-shared", B=2, growers=[1, 2], chunks=1, entry="shared")
    add("b-B2-odd", B=2, growers=[1, 2], chunks=1, odd=True)
    # a waiting reap that is also told that an incomplete crop would do: it
    # still waits (and returns everything)
    add("b-B2-wait-ai", B=2, growers=[1, 2], chunks=1,
        reap_kw={"allow_incomplete": True})
    add("c-B1-twice", B=1, growers=[1, 1])
    add("c-B2-twice", B=2, growers=[1, 1, 2], chunks=1)
    add("d-B2-poll1-nr", B=2, growers=[1, 2], poll=1, chunks=1,
        queries=("num_results",))
    add("d-B2-poll1-ready", B=2, growers=[1, 2], poll=1, chunks=1,
        queries=("ready",))
    add("d-B2-poll1-missing", B=2, growers=[1, 2], poll=1, chunks=1,
        queries=("missing",), preempt=3)
    add("d-B1-poll2", B=1, growers=[1], poll=2)
    # default clean-up (the reaper deletes the crop when done); batches are
    # distinct, so every grower has finished before the deletion can start
    add("g-B2-cleanup", B=2, growers=[1, 2], clean_up=None)
    # one grower process growing two batches, another one the third
    add("h-B3-cropgrow-pair", B=3, growers=[[1, 2], 3], entry="cropgrow")
    if tier == "thorough":
        add("b-B2-c3", B=2, growers=[1, 2], chunks=3)
        add("b-B2-cropgrow", B=2, growers=[1, 2], entry="cropgrow")
        add("b-B2-runner", B=2, growers=[1, 2], kind="runner")
        add("b-B2-sampler", B=2, growers=[1, 2], kind="sampler", chunks=1)
        add("c-B1-twice-c3", B=1, growers=[1, 1], chunks=3)
        add("c-B2-twice-c2", B=2, growers=[1, 1, 2], chunks=2)
        add("c-B3-twice-p3", B=3, growers=[1, 1, 2, 3], preempt=3, chunks=1)
        add("f-B3-poll1-p2", B=3, growers=[1, 2, 3], poll=1, chunks=1,
            preempt=2, queries=("num_results", "ready"))
        add("d-B2-poll1-all", B=2, growers=[1, 2], poll=1, chunks=1)
        add("d-B2-poll2-p3", B=2, growers=[1, 2], poll=2, chunks=2, preempt=3)
        add("e-B3", B=3, growers=[1, 2, 3], chunks=1)
        add("e-B3-c2-p3", B=3, growers=[1, 2, 3], chunks=2, preempt=3)
    return cs


class Setup:
    def __init__(self, cfg, d):
        import xyzpy as xyz

        self.cfg = cfg
        self.d = d
        B = cfg["B"]
        # 2 settings / batch ("odd": one more, so the batches differ in size)
        self.combos = {"a": list(range(1, 2 * B + 1 + bool(cfg.get("odd"))))}
        self.f = xfn.make_fn(["a"], kind="num", name="f11")
        core.fresh_dir(os.path.basename(d))
        if cfg["kind"] == "runner":
            self.runner = xyz.Runner(self.f, var_names="out")
            crop = self.runner.Crop(name=NAME, parent_dir=d, num_batches=B)
        elif cfg["kind"] == "sampler":
            import numpy as np

            self.runner = xyz.Runner(self.f, var_names="out")
            smp = xyz.Sampler(self.runner, os.path.join(d, "table.pkl"),
                              default_combos=dict(self.combos))
            crop = smp.Crop(name=NAME, parent_dir=d, num_batches=B)
        else:
            crop = xyz.Crop(fn=self.f, name=NAME, parent_dir=d, num_batches=B)
        if cfg["kind"] == "sampler":
            np.random.seed(11)
            crop.sow_samples(2 * B, verbosity=0)
        else:
            crop.sow_combos(self.combos, verbosity=0)
        self.pre = fsseam.snapshot(d)
        self.expect = {a: xfn.expected("num", {"a": a})
                       for a in self.combos["a"]}
        self.resdir = os.path.join(".xyz-" + NAME, "results")
        self.sharing = sched.Sharing()
        self.sharing.all_visible = cfg["entry"] == "shared"

    # ---- actors ---------------------------------------------------------- #
    def actors(self):
        from xyzpy.gen.cropping import grow

        cfg, d = self.cfg, self.d
        acts = []
        for n, i in enumerate(cfg["growers"]):
            ids = i if isinstance(i, list) else [i]
            if cfg["entry"] == "shared":
                # (worker threads of one process that share a Crop object)
                if n == 0:
                    shared = _crop(d)
                acts.append(("G%d.%d" % (ids[0], n), lambda ex, i=ids[0],
                             c_=shared: grow(i, crop=c_, verbosity=0)))
            elif cfg["entry"] == "grow":
                acts.append(("G%d.%d" % (ids[0], n), lambda ex, i=ids[0]: grow(
                    i, crop=_crop(d), verbosity=0)))
            else:
                acts.append(("G%d.%d" % (ids[0], n),
                             lambda ex, ids=ids: _crop(d).grow(
                                 list(ids), verbosity=0)))
        cu = cfg["clean_up"]
        rkw = dict(cfg.get("reap_kw") or {})
        acts.append(("R", lambda ex: _crop(d).reap(wait=True, clean_up=cu,
                                                   **rkw)))
        if cfg["poll"]:
            def poller(ex, rounds=cfg["poll"]):
                crop = _crop(d)
                obs = []
                for _ in range(rounds):
                    for q in cfg["queries"]:
                        t0 = ex.now()
                        if q == "num_results":
                            v = crop.num_results
                        elif q == "ready":
                            v = crop.is_ready_to_reap()
                        else:
                            v = crop.missing_results()
                        obs.append((q, t0, ex.now(), v))
                return obs
            acts.append(("P", poller))
        return acts

    def complete_results(self):
        """batch ids whose result file is completely written right now"""
        out = set()
        B = self.cfg["B"]
        for i in range(1, B + 1):
            p = os.path.join(self.d, self.resdir, "xyz-result-%d.jbdmp" % i)
            try:
                with fsseam._orig["open"](p, "rb") as fh:
                    res = pickle.load(fh)
                want = tuple(self.expect[a] for a in (2 * i - 1, 2 * i))
                if tuple(res) == want:
                    out.add(i)
            except Exception:
                pass
        return out

    def observer(self, ex, actor, op):
        # ground truth at the instant a reader looks at the results directory
        if actor.name in ("P",) and op[0] in ("list", "stat"):
            return sorted(self.complete_results())
        return None

    def make_exec(self):
        fsseam.restore(self.d, self.pre)
        ex = sched.Exec(self.d, self.actors(), self.sharing,
                        observer=self.observer, norm=norm)
        seam = fsseam.Seam(self.d, mode="schedule", sched=ex,
                           write_chunks=self.cfg["chunks"])
        return ex, seam

    def discover(self):
        """one execution with every operation visible, to seed the sharing
        tables"""
        self.sharing.frozen = None
        ex, seam = self.make_exec()
        with seam:
            ex.start()
            while not ex.all_done():
                en = ex.enabled()
                if not en:
                    break
                ex.step(en[-1])
            if ex.all_done():
                ex.finish()
            else:
                ex.unwind()

    # ---- oracle ---------------------------------------------------------- #
    def judge(self, ex):
        """-> (outcome key, [(violation key, what)])"""
        cfg = self.cfg
        vio = []
        name = cfg["name"]
        if getattr(ex, "deadlocked", False):
            return "deadlock", [("C11|%s|deadlock" % name,
                                 "no actor enabled: %r" % [
                                     (a.name, a.pending) for a in ex.actors
                                     if not a.done])]
        if ex.livelock:
            return "livelock", [("C11|%s|livelock" % name,
                                 "horizon exceeded")]
        oc = []
        for a in ex.actors:
            if a.name.startswith("G"):
                if a.exc:
                    vio.append(("C11|%s|grower-raised:%s" % (
                        name, a.exc.split(":")[0]),
                        "grower %s raised %s" % (a.name, a.exc)))
                    oc.append("G!" + a.exc.split(":")[0])
            elif a.name == "R":
                if a.exc and (self.cfg.get("reap_kw") or {}).get(
                        "allow_incomplete") and a.exc.startswith("XYZError") \
                        and "at least one finished result" in a.exc:
                    # (nothing was finished when the reap began and there is
                    # nothing to take the stand-in for missing results from:
                    # the documented refusal of allow_incomplete)
                    oc.append("R:refused")
                elif a.exc:
                    vio.append(("C11|%s|reaper-raised:%s" % (
                        name, a.exc.split(":")[0]),
                        "reap(wait=True) raised %s" % a.exc))
                    oc.append("R!" + a.exc.split(":")[0])
                else:
                    ok = self.reaped_ok(a.result)
                    if not ok:
                        vio.append(("C11|%s|reaper-wrong" % name,
                                    "reap(wait=True) returned %r"
                                    % (a.result,)))
                    oc.append("R=ok" if ok else "R=wrong")
            elif a.name == "P":
                if a.exc:
                    vio.append(("C11|%s|poller-raised:%s" % (
                        name, a.exc.split(":")[0]),
                        "progress query raised %s" % a.exc))
                    oc.append("P!" + a.exc.split(":")[0])
                    continue
                bad = self.judge_poller(ex, a)
                for sym, what in bad:
                    vio.append(("C11|%s|%s" % (name, sym), what))
                oc.append("P=" + ("ok" if not bad else bad[0][0]))
        return ",".join(oc), vio

    def reaped_ok(self, res):
        try:
            if self.cfg["kind"] == "sampler":
                rows = cmp.df_rows(res)
                return len(rows) == 2 * self.cfg["B"] and all(
                    r["out"] == self.expect[r["a"]] for r in rows)
            if self.cfg["kind"] == "runner":
                got = cmp.ds_to_dict(res)
                want = {("out", (("a", a),)): v for a, v in self.expect.items()}
                return got == want
            return tuple(res) == tuple(self.expect[a] for a in self.combos["a"])
        except Exception:
            return False

    def judge_poller(self, ex, actor):
        B = self.cfg["B"]
        bad = []
        for q, t0, t1, v in actor.result:
            steps = [i for i in range(t0, t1) if ex.trace[i][0] == actor.aid]
            lists = [i for i in steps if ex.trace[i][1] == "list"
                     and ex.trace[i][2] == self.resdir]
            if not lists:
                continue
            truth = ex.obs[lists[0]]
            if q == "num_results" and v > len(truth):
                bad.append(("poller-overcount",
                            "num_results=%d while only %r were completely "
                            "written" % (v, truth)))
            if q == "ready" and v and len(truth) < B:
                bad.append(("poller-ready-early",
                            "is_ready_to_reap() True while only %r were "
                            "completely written" % (truth,)))
            if q == "missing":
                # each batch reported as not missing must be complete when
                # its file was looked at
                stats = {ex.trace[i][2]: ex.obs[i] for i in steps
                         if ex.trace[i][1] == "stat"}
                for i in range(1, B + 1):
                    p = os.path.join(self.resdir, "xyz-result-%d.jbdmp" % i)
                    if i not in v and p in stats and i not in stats[p]:
                        bad.append(("poller-notmissing-partial",
                                    "missing_results()=%r but result %d was "
                                    "only partly written" % (v, i)))
        return bad


SPLIT_DEPTH = 7


def _explore(st, cfg, stack=None, split=None, max_execs=None):
    vios = {}
    since = [0]

    def check(ex):
        key, vio = st.judge(ex)
        for k, w in vio:
            if k not in vios:
                vios[k] = (w, {"config": cfg["name"],
                               "schedule": [t[0] for t in ex.trace]})
        if vios:
            # a violation is already established for this sub-tree: look a
            # little further for other kinds, then stop (reported as capped)
            since[0] += 1
            if since[0] > 150:
                exp.stop = True
        return key

    exp = sched.Explorer(st.make_exec, check, max_preemptions=cfg["preempt"],
                         max_execs=max_execs)
    exp.deadline = cfg.get("deadline")
    exp.explore(initial_stack=stack, split_depth=split)
    # determinism: re-run the first schedule of every outcome and demand the
    # identical trace and verdict
    replays = 0
    for key, trace in list(exp.first_traces.items())[:4]:
        ex, seam = exp.run_one([t[0] for t in trace])
        with_seam_exit(ex, seam)
        key2, _ = st.judge(ex)
        replays += 1
        if key2 != key or list(ex.trace) != list(trace):
            diffs = [(a, b) for a, b in zip(ex.trace, trace) if a != b][:3]
            raise core.HarnessError(
                "non-deterministic replay in %s: %r vs %r; %d/%d steps, first "
                "differences %r" % (cfg["name"], key, key2, len(ex.trace),
                                    len(trace), diffs))
    return exp, vios, replays


def _result(st, cfg, exp, vios, replays):
    names = [n for n, _ in st.actors()]
    sample = None
    if exp.first_traces:
        tr = next(iter(exp.first_traces.values()))
        sample = {"config": cfg["name"], "schedule": " ".join(
            "%s:%s:%s" % (names[t[0]], t[1], os.path.basename(t[2]))
            for t in tr[:40])}
    return {
        "config": cfg["name"], "execs": exp.execs, "blocked": exp.blocked,
        "transitions": exp.transitions, "outcomes": exp.outcomes,
        "max_depth": exp.max_depth, "capped": exp.capped,
        "deadlocks": exp.deadlocks, "livelocks": exp.livelocks,
        "violations": [(k, w, dict(c, sharing=st.sharing.export()))
                       for k, (w, c) in vios.items()],
        "replays": replays, "sample": sample,
        "grew": st.sharing.grew, "tables": st.sharing.export_all(),
    }


def scratch_name(cfg):
    """every other configuration lives in a plain directory, the others in
    one named with the crop's own words and glob characters (a tree that globs
    without escaping sees nothing in the latter)"""
    names = sorted(c["name"] for c in configs("thorough"))
    return ["c11.results[1].batches", "c11"][names.index(cfg["name"]) % 2]


def prep_config(task):
    """phase A: seed the sharing tables, explore the top of the tree and
    return the frontier of sub-trees"""
    cfg, tables = task
    d = os.path.join(core.scratch_root(), scratch_name(cfg))
    st = Setup(cfg, d)
    if tables:
        st.sharing.load_all(tables)
    import time

    st.discover()
    # shallow pass first (iterative context bounding: 0, 1, 2 preemptions):
    # small, finds the violations that need few preemptions even on a tree
    # whose full schedule space is far too large, and converges the sharing
    # tables
    shallow = {"execs": 0, "blocked": 0, "transitions": 0, "outcomes": {},
               "violations": []}
    for bound in (0, 1, 2):
        st.sharing.freeze()
        exp0, vios0, _ = _explore(
            st, dict(cfg, preempt=bound, deadline=time.time() + 12),
            max_execs=400)
        shallow["execs"] += exp0.execs
        shallow["blocked"] += exp0.blocked
        shallow["transitions"] += exp0.transitions
        for oc, n in exp0.outcomes.items():
            shallow["outcomes"][oc] = shallow["outcomes"].get(oc, 0) + n
        shallow["violations"] += [
            (k, w, dict(c, sharing=st.sharing.export()))
            for k, (w, c) in vios0.items()]
        if vios0:
            break
    if shallow["violations"]:
        # established already: no need for the exhaustive pass
        out = _result(st, cfg, exp0, {}, 0)
        out.update(execs=shallow["execs"], blocked=shallow["blocked"],
                   transitions=shallow["transitions"],
                   outcomes=shallow["outcomes"],
                   violations=shallow["violations"], capped=True,
                   frontier=[], grew=False)
        return out
    for _ in range(6):
        st.sharing.freeze()
        exp, vios, replays = _explore(st, cfg, split=SPLIT_DEPTH)
        if not st.sharing.grew:
            break
    else:
        raise core.HarnessError("visible set did not stabilise for %r" % cfg)
    out = _result(st, cfg, exp, vios, replays)
    out["frontier"] = exp.frontier
    out["shallow_execs"] = shallow["execs"]
    return out


def run_subtree(task):
    """phase B: exhaust one sub-tree"""
    cfg, tables, stack = task
    d = os.path.join(core.scratch_root(), scratch_name(cfg))
    st = Setup(cfg, d)
    st.sharing.load_all(tables)
    st.sharing.freeze()
    exp, vios, replays = _explore(st, cfg, stack=stack,
                                  max_execs=cfg.get("max_execs"))
    return _result(st, cfg, exp, vios, replays)


def with_seam_exit(ex, seam):
    try:
        if ex.all_done():
            ex.finish()
        else:
            # run to completion with default choices
            while not ex.all_done():
                en = ex.enabled()
                if not en:
                    ex.deadlocked = True
                    break
                ex.step(en[0])
            if ex.all_done():
                ex.finish()
            else:
                ex.unwind()
    finally:
        seam.__exit__(None, None, None)


def run(ctx):
    import time

    cfgs = configs(ctx.tier)
    ctx.rng.shuffle(cfgs)
    # wall-clock budget: never reached on a tree where results are published
    # atomically (6 s / 70 s); a tree with in-place writes has a vastly
    # larger schedule space and is cut off here (reported as not exhaustive)
    budget = 150 if ctx.tier == "quick" else 1200
    for c in cfgs:
        c["deadline"] = time.time() + budget
    by_name = {c["name"]: c for c in cfgs}
    tables = {}
    per = {}
    todo = list(by_name)
    for rnd in range(5):
        agg = {}
        preps = list(ctx.map_unordered(
            "prep_config", [(by_name[n], tables.get(n)) for n in todo]))
        tasks = []
        for out in preps:
            agg[out["config"]] = [out]
            for stack in out["frontier"]:
                tasks.append((by_name[out["config"]], out["tables"], stack))
        ctx.rng.shuffle(tasks)
        for out in ctx.map_unordered("run_subtree", tasks):
            agg[out["config"]].append(out)
        todo = []
        for name, outs in agg.items():
            if any(o["grew"] for o in outs[1:]):
                # a sub-tree met an operation that was not yet known to be
                # shared: redo this configuration with the merged tables
                tables[name] = sched.Sharing.merge([o["tables"] for o in outs])
                todo.append(name)
            else:
                per[name] = outs
        if not todo:
            break
    else:
        raise core.HarnessError("sharing tables did not stabilise: %r" % todo)
    transitions = validated = 0
    for name, outs in per.items():
        cfg = by_name[name]
        execs = sum(o["execs"] for o in outs)
        blocked = sum(o["blocked"] for o in outs)
        trans = sum(o["transitions"] for o in outs)
        ocs = {}
        for o in outs:
            for oc, n in o["outcomes"].items():
                ocs[oc] = ocs.get(oc, 0) + n
                ctx.outcomes[oc] = ctx.outcomes.get(oc, 0) + n
            for k, w, case in o["violations"]:
                ctx.violation(k, w, case)
        ctx.evaluations += execs + blocked
        transitions += trans
        validated += execs
        for i in range(execs):
            ctx.nontrivial.add("%s#%d" % (name, i))
        if outs[0]["sample"]:
            ctx.sample(outs[0]["sample"], limit=6)
        capped = any(o["capped"] for o in outs)
        if capped:
            ctx.exhaustive = False
        if execs == 0 and not capped and \
                not any(o["violations"] for o in outs):
            raise core.HarnessError(
                "configuration %s: no complete execution was explored" % name)
        per[name] = {
            "complete_executions": execs, "sleep_set_blocked": blocked,
            "transitions": trans, "subtrees": len(outs) - 1,
            "bound": ("preemptions<=%d" % cfg["preempt"]
                      if cfg["preempt"] is not None
                      else "exhaustive up to partial-order equivalence"),
            "max_depth": max(o["max_depth"] for o in outs), "outcomes": ocs,
            "deadlocks": sum(o["deadlocks"] for o in outs),
            "livelocks": sum(o["livelocks"] for o in outs),
            "determinism_replays": sum(o["replays"] for o in outs),
            "capped": capped,
        }
    # ---- long waits: the result the reaper is waiting for appears only after
    # it has looked P times (every P up to a bound); no real time passes
    pmax = 40 if ctx.tier == "quick" else 150
    waits = list(ctx.map_unordered(
        "long_wait", [{"polls": list(range(lo, min(lo + 10, pmax + 1)))}
                      for lo in range(1, pmax + 1, 10)]))
    nwait = 0
    for out in waits:
        nwait += out["n"]
        for k, w, case in out["violations"]:
            ctx.violation(k, w, case)
    ctx.evaluations += nwait
    ctx.coverage_extra["long_waits"] = {
        "polls_before_the_result_appears": "1..%d" % pmax, "runs": nwait}
    ctx.coverage_extra.update({
        "states": transitions + len(cfgs),
        "transitions": transitions,
        "traces_validated_against_impl": validated,
        "explanation": "every schedule is an execution of the real "
        "implementation (there is no separate model); states = scheduling "
        "nodes visited; transitions = scheduling choices taken",
        "per_configuration": per,
    })


def long_wait(task):
    """reap(wait=True) while the first batch's result is published only at
    the reaper's P-th sleep, for every P of the task"""
    import time
    import xyzpy as xyz
    from xyzpy.gen.cropping import grow

    vio = []
    n = 0
    f = xfn.make_fn(["a"], kind="num", name="f11w")
    combos = {"a": [1, 2, 3, 4]}
    want = tuple(xfn.expected("num", {"a": a}) for a in combos["a"])
    for P in task["polls"]:
        n += 1
        d = core.fresh_dir("c11w")
        crop = xyz.Crop(fn=f, name=NAME, parent_dir=d, batchsize=2)
        crop.sow_combos(combos, verbosity=0)
        for i in (1, 2):
            grow(i, crop=crop, verbosity=0)
        res1 = os.path.join(crop.location, "results", "xyz-result-1.jbdmp")
        aside = os.path.join(d, "held-back")
        os.replace(res1, aside)
        count = [0]
        real_sleep = time.sleep

        def fake_sleep(t):
            count[0] += 1
            if count[0] == P:
                os.replace(aside, res1)  # (published atomically)
            if count[0] > P + 5:
                raise core.HarnessError("the reaper keeps sleeping although "
                                        "the result is there")

        # (should an implementation wait by other means than time.sleep, the
        # result is published after 15 real seconds and the run not judged)
        import threading

        late = [False]

        def rescue():
            if os.path.exists(aside):
                late[0] = True
                os.replace(aside, res1)

        timer = threading.Timer(15.0, rescue)
        timer.daemon = True
        timer.start()
        time.sleep = fake_sleep
        try:
            try:
                got = xyz.Crop(name=NAME, parent_dir=d).reap(
                    wait=True, clean_up=False)
            finally:
                time.sleep = real_sleep
                timer.cancel()
            if late[0]:
                n -= 1
                continue
            if tuple(got) != want:
                vio.append(("C11|long-wait|wrong", "the result appeared at "
                            "the reaper's %d-th sleep: reaped %r, expected %r"
                            % (P, got, want), {"_call": "long_wait",
                                               "payload": {"polls": [P]}}))
        except core.HarnessError:
            raise
        except Exception as e:
            vio.append(("C11|long-wait|raised:" + type(e).__name__,
                        "the result appeared at the reaper's %d-th sleep "
                        "(after %d sleeps): reap(wait=True) raised %r"
                        % (P, count[0], e),
                        {"_call": "long_wait", "payload": {"polls": [P]}}))
    return {"n": n, "violations": vio}


def replay(case):
    cfg = [c for c in configs("thorough") if c["name"] == case["config"]][0]
    d = os.path.join(core.scratch_root(), scratch_name(cfg))
    st = Setup(cfg, d)
    st.sharing.load(case["sharing"])
    exp = sched.Explorer(st.make_exec, lambda ex: "")
    try:
        ex, seam = exp.run_one(case["schedule"])
    except sched.Divergence as e:
        print("replay: the recorded schedule cannot be followed on this "
              "tree (%s)" % str(e)[:100])
        return []
    with_seam_exit(ex, seam)
    return st.judge(ex)[1]
