"""C19 - running statistics equal the statistics of the whole sample.

Explicit-state search over the Welford state: every sequence (hence every
order and chunking) over small value alphabets in several offset / spread
regimes up to a depth, compared in every state with exact rational
arithmetic; plus exhaustive enumeration of estimate_from_repeats' stopping
rule.
"""
import copy
import itertools
from fractions import Fraction

from xv import core

ID = "C19"
LEVEL = "model_checking"
RULE = (
    "depth-first enumeration of every update sequence (depth 6 quick / 8 "
    "thorough) over 5-value alphabets offset + j*spread in five regimes "
    "(offset up to 1e9, spread down to 1e-3); in every state count, mean, "
    "var, std, err, rel_err are compared with Fraction arithmetic on the "
    "actual float inputs and the same prefix is re-fed through "
    "update_from_it in chunks (bit-identical state required); covariance "
    "and covariance matrix (2-4 series) likewise to depth 4/5; "
    "samples of 33-500 values in every two-chunk split and some multi-chunk "
    "splits (lists, arrays, generators); estimate_from_repeats for all "
    "(rtol, tol_scale, min_samples, max_samples) x every deterministic "
    "sample sequence at scales 1, 100 and 0.01; non-trivial = "
    "states with >= 2 samples that are not all equal"
)
ASSUMPTIONS = [
    "floating-point accuracy relative to the data scale: |mean - mu| <= "
    "4 n eps max|x|; variance / covariance within 8 n eps kappa relative "
    "(kappa = sqrt(1 + mu^2/sigma^2), the Chan-Golub-LeVeque bound for "
    "Welford's algorithm) plus an absolute floor (eps max|x|)^2; eps = 2^-53",
    "estimate_from_repeats: cases whose exact convergence margin is below "
    "1e-12 relative are counted as borderline and not judged",
    "sequences of up to 8 values, not 500: the state space of the recurrence "
    "is explored exhaustively at small depth instead of sampled at large",
]

EPS = 2.0 ** -53
REGIMES = [(0.0, 1.0), (1e9, 1.0), (1e9, 1e-3), (-1e9, 1e-3), (0.0, 1e-3)]


def alphabet(reg):
    off, sp = reg
    return [off + j * sp for j in (-2, -1, 0, 1, 2)]


def tasks(tier):
    depth = 6 if tier == "quick" else 8
    out = []
    for ri, reg in enumerate(REGIMES):
        al = alphabet(reg)
        for pre in itertools.product(range(5), repeat=2):
            out.append({"part": "stats", "regime": ri, "prefix": list(pre),
                        "depth": depth})
    cdepth = 4 if tier == "quick" else 5
    for ri in range(len(REGIMES)):
        for first in range(6):
            out.append({"part": "cov", "regime": ri, "first": first,
                        "depth": cdepth})
    for ri in (0, 2):
        for n in (2, 3, 4):
            out.append({"part": "matrix", "regime": ri, "n": n,
                        "depth": 3 if tier == "quick" else 4})
    rtols = (0.5, 0.1, 0.02)
    for rtol, ts, mn in itertools.product(rtols, (0, 1, 10), range(5)):
        out.append({"part": "repeats", "rtol": rtol, "tol_scale": ts,
                    "min_samples": mn,
                    "max_list": list(range(1, 9 if tier == "thorough" else 7))})
        # estimates whose magnitude is far from one
        for scale in (100.0, 0.01):
            out.append({"part": "repeats", "rtol": rtol, "tol_scale": ts,
                        "min_samples": mn, "scale": scale,
                        "max_list": list(range(2, 8 if tier == "thorough"
                                               else 6))})
    # long samples (up to 500 values) in every two-chunk split and a few
    # multi-chunk splits, fed as lists, arrays and generators
    for ri in range(len(REGIMES)):
        for n in ((33, 64, 100) if tier == "quick" else (31, 32, 33, 64, 100,
                                                        257, 500)):
            out.append({"part": "long", "regime": ri, "n": n})
    return out


def exact_stats(xs):
    n = len(xs)
    fx = [Fraction(x) for x in xs]
    s = sum(fx)
    mu = s / n
    var = sum((x - mu) ** 2 for x in fx) / n
    return n, mu, var


def close_var(got, var, mu, n, scale):
    """got ~ var within the Welford bound"""
    v = float(var)
    floor = (EPS * scale) ** 2 * n * 4
    if var == 0:
        return abs(got) <= floor
    kappa = (1.0 + float(mu * mu / var)) ** 0.5
    return abs(got - v) <= 8 * n * EPS * kappa * v + floor


def run_task(task):
    part = task["part"]
    if part == "stats":
        return run_stats(task)
    if part == "cov":
        return run_cov(task)
    if part == "matrix":
        return run_matrix(task)
    if part == "long":
        return run_long(task)
    return run_repeats(task)


def run_long(task):
    import numpy as np
    from xyzpy.utils import RunningStatistics, RunningCovariance

    al = alphabet(REGIMES[task["regime"]])
    n = task["n"]
    scale = max(abs(a) for a in al)
    # a fixed, non-periodic pattern over the alphabet
    seq = [al[(i * i + 3 * i // 2 + (i // 7)) % 5] for i in range(n)]
    ys = [2.0 * seq[(i * 3 + 1) % n] - al[(i // 3) % 5] for i in range(n)]
    out = {"states": 0, "transitions": 0, "nontrivial": 0, "vio": {},
           "sample": {"part": "long", "regime": REGIMES[task["regime"]],
                      "n": n}}
    tag = "C19|long|regime%d|" % task["regime"]
    k, mu, var = exact_stats(seq)
    fx, fy = [Fraction(x) for x in seq], [Fraction(y) for y in ys]
    mx, my = sum(fx) / n, sum(fy) / n
    cov = float(sum((a - mx) * (b - my) for a, b in zip(fx, fy)) / n)
    vx = float(sum((a - mx) ** 2 for a in fx) / n) ** 0.5
    vy = float(sum((b - my) ** 2 for b in fy) / n) ** 0.5
    cbound = 8 * n * EPS * ((vx + abs(float(mx))) * (vy + abs(float(my)))) \
        + (EPS * scale * 3) ** 2 * 4 * n
    splits = [[s_] for s_ in range(0, n + 1)]
    splits += [[n // 3, 2 * n // 3], [1, n - 1], [32, 33] if n > 33 else [1],
               list(range(5, n, 5))]
    for si, cut in enumerate(splits):
        bounds = [0] + list(cut) + [n]
        forms = ("list", "array", "gen")
        rs = RunningStatistics()
        rc = RunningCovariance()
        for ci in range(len(bounds) - 1):
            a, b = bounds[ci], bounds[ci + 1]
            form = forms[(si + ci) % 3]
            cx, cy = seq[a:b], ys[a:b]
            if form == "array":
                cx, cy = np.array(cx), np.array(cy)
            elif form == "gen":
                cx, cy = iter(cx), iter(cy)
            rs.update_from_it(cx)
            if form == "gen":
                cx = iter(seq[a:b])
            rc.update_from_it(cx, cy)
            out["transitions"] += 1
        out["states"] += 1
        out["nontrivial"] += 1
        if rs.count != n or abs(rs.mean - float(mu)) > \
                4 * n * EPS * scale + 1e-300 or not close_var(
                    rs.var, var, mu, n, scale):
            out["vio"].setdefault(tag + "chunking", (
                {"n": n, "cuts": cut}, "%d values fed in chunks cut at %r: "
                "count %r mean %r var %r, whole sample %d %r %r" % (
                    n, cut, rs.count, rs.mean, rs.var, n, float(mu),
                    float(var))))
        if rc.count != n or abs(rc.covar - cov) > cbound:
            out["vio"].setdefault(tag + "cov-chunking", (
                {"n": n, "cuts": cut}, "%d pairs fed in chunks cut at %r: "
                "covar %r, whole sample %r" % (n, cut, rc.covar, cov)))
    # the covariance matrix of 2-4 series fed in chunks (the two-chunk splits
    # include chunks exactly as long as there are series)
    from xyzpy.utils import RunningCovarianceMatrix

    m_n = min(n, 64)
    for nser in (2, 3, 4):
        cols = [[seq[(i * (k + 1) + k) % n] * (1 + k % 2) + k * al[1]
                 for i in range(m_n)] for k in range(nser)]
        fcols = [[Fraction(v) for v in c_] for c_ in cols]
        means = [sum(c_) / m_n for c_ in fcols]
        exact = [[float(sum((a - means[i]) * (b - means[j])
                            for a, b in zip(fcols[i], fcols[j])) / m_n)
                  for j in range(nser)] for i in range(nser)]
        mscale = max(abs(v) for c_ in cols for v in c_)
        tol = 64 * m_n * EPS * mscale * mscale
        msplits = [[s_] for s_ in range(0, m_n + 1)] + [
            list(range(nser, m_n, nser)), [1, 1 + nser], [nser, 2 * nser]]
        for si, cut in enumerate(msplits):
            bounds = [0] + list(cut) + [m_n]
            rm = RunningCovarianceMatrix(nser)
            reads = []
            for ci in range(len(bounds) - 1):
                a, b = bounds[ci], bounds[ci + 1]
                if a == b:
                    continue
                chunk = [c_[a:b] for c_ in cols]
                if (si + ci) % 3 == 1:
                    chunk = [np.array(c_) for c_ in chunk]
                rm.update_from_it(*chunk)
                out["transitions"] += 1
                if rm.count >= 2:
                    # (what was read is a value: it stays what it was)
                    for m_ in (rm.covar_matrix, rm.sample_covar_matrix):
                        reads.append((m_, np.array(m_, copy=True), rm.count))
            out["states"] += 1
            for m_, was, cnt in reads:
                if not np.array_equal(m_, was):
                    out["vio"].setdefault(tag + "matrix-read-changed", (
                        {"n": m_n, "series": nser, "cuts": cut},
                        "a matrix read after %d samples changed when the "
                        "object was read / fed again" % cnt))
                    break
            got = rm.covar_matrix
            if rm.count != m_n or not np.allclose(got, np.array(exact),
                                                  rtol=0, atol=tol):
                out["vio"].setdefault(tag + "matrix-chunking", (
                    {"n": m_n, "series": nser, "cuts": cut},
                    "%d samples of %d series fed in chunks cut at %r: count "
                    "%r, covariance matrix %r, whole sample %r" % (
                        m_n, nser, cut, rm.count, got.tolist(), exact)))
    return fin(out)


def run_stats(task):
    from xyzpy.utils import RunningStatistics

    al = alphabet(REGIMES[task["regime"]])
    depth = task["depth"]
    out = {"states": 0, "transitions": 0, "nontrivial": 0, "vio": {},
           "sample": None}
    scale = max(abs(a) for a in al)

    def check(seq, rs):
        n, mu, var = exact_stats(seq)
        out["states"] += 1
        if n >= 2 and var != 0:
            out["nontrivial"] += 1
        tag = "C19|stats|regime%d|" % task["regime"]
        if rs.count != n:
            out["vio"].setdefault(tag + "count", (seq, "count %r != %d"
                                                  % (rs.count, n)))
        if abs(rs.mean - float(mu)) > 4 * n * EPS * scale + 1e-300:
            out["vio"].setdefault(tag + "mean", (
                seq, "mean %r, exact %r" % (rs.mean, float(mu))))
        if not close_var(rs.var, var, mu, n, scale):
            out["vio"].setdefault(tag + "var", (
                seq, "var %r, exact %r" % (rs.var, float(var))))
        sd = float(var) ** 0.5
        tol = (8 * n * EPS * (1.0 + float(mu * mu / var)) ** 0.5 * sd
               if var != 0 else 0.0) + 4 * EPS * scale * n
        if abs(rs.std - sd) > tol:
            out["vio"].setdefault(tag + "std", (
                seq, "std %r, exact %r" % (rs.std, sd)))
        if abs(rs.err - sd / n ** 0.5) > tol:
            out["vio"].setdefault(tag + "err", (
                seq, "err %r, exact %r" % (rs.err, sd / n ** 0.5)))
        if mu != 0:
            want = sd / n ** 0.5 / abs(float(mu))
            if abs(rs.rel_err - want) > tol / abs(float(mu)) + 1e-12 * want:
                out["vio"].setdefault(tag + "rel_err", (
                    seq, "rel_err %r, exact %r" % (rs.rel_err, want)))
        # the same values fed in chunks (a chunked implementation may round
        # differently, so: same accuracy requirement, not bit equality)
        if n >= 2:
            r2 = RunningStatistics()
            pat = out["states"] % 4
            i = 0
            while i < n:
                k = (1, 2, 3, 2)[(i + pat) % 4]
                k = min(k, n - i)
                if k == 1 and pat == 2:
                    r2.update(seq[i])
                else:
                    r2.update_from_it(iter(seq[i:i + k]))
                i += k
            if r2.count != n or abs(r2.mean - float(mu)) > \
                    4 * n * EPS * scale + 1e-300 or not close_var(
                        r2.var, var, mu, n, scale):
                out["vio"].setdefault(tag + "chunking", (
                    seq, "fed in chunks: count %r mean %r var %r, whole "
                    "sample: %d %r %r" % (r2.count, r2.mean, r2.var, n,
                                          float(mu), float(var))))

    def rec(seq, rs):
        # (the successor states are copies of the real object that was just
        # read, so anything it remembers beyond count/mean/M2 travels along)
        if seq:
            check(seq, rs)
        if len(seq) == depth:
            return
        for x in al:
            r = copy.deepcopy(rs)
            r.update(x)
            out["transitions"] += 1
            rec(seq + [x], r)

    rs0 = RunningStatistics()
    seq = []
    for i in task["prefix"]:
        rs0.update(al[i])
        seq.append(al[i])
    out["transitions"] += len(seq)
    if len(seq) and task["prefix"] == [0, 0]:
        # the one-sample states are judged once per regime
        for x in al:
            r = RunningStatistics()
            r.update(x)
            check([x], r)
    rec(seq, rs0)
    out["sample"] = {"part": "stats", "regime": REGIMES[task["regime"]],
                     "sequence": seq + [al[4]] * 2}
    return fin(out)


def pair_alphabet(reg):
    al = alphabet(reg)
    off, sp = reg
    # (x, y = alpha x + beta * noise)
    return [(al[0], 2 * al[0] + sp), (al[2], 2 * al[2] - sp),
            (al[4], 2 * al[4]), (al[1], -al[1] + 2 * sp), (al[3], -al[3]),
            (al[2], al[2])]


def run_cov(task):
    from xyzpy.utils import RunningCovariance

    pa = pair_alphabet(REGIMES[task["regime"]])
    out = {"states": 0, "transitions": 0, "nontrivial": 0, "vio": {},
           "sample": None}
    scale = max(max(abs(x), abs(y)) for x, y in pa)
    tag = "C19|cov|regime%d|" % task["regime"]

    def rec(seq, rc):
        n = len(seq)
        if n >= 1:
            out["states"] += 1
            fx = [Fraction(x) for x, _ in seq]
            fy = [Fraction(y) for _, y in seq]
            mx, my = sum(fx) / n, sum(fy) / n
            cov = sum((a - mx) * (b - my) for a, b in zip(fx, fy)) / n
            vx = sum((a - mx) ** 2 for a in fx) / n
            vy = sum((b - my) ** 2 for b in fy) / n
            # condition: products of the spreads and the means
            sx, sy = float(vx) ** 0.5, float(vy) ** 0.5
            bound = 8 * n * EPS * ((sx + abs(float(mx))) * (sy + abs(float(my))))\
                + (EPS * scale) ** 2 * 4 * n
            if n >= 2 and cov != 0:
                out["nontrivial"] += 1
            if abs(rc.covar - float(cov)) > bound:
                out["vio"].setdefault(tag + "covar", (
                    seq, "covar %r, exact %r" % (rc.covar, float(cov))))
            if n >= 2:
                want = float(cov * n / (n - 1))
                if abs(rc.sample_covar - want) > bound * n / (n - 1):
                    out["vio"].setdefault(tag + "sample_covar", (
                        seq, "sample_covar %r, exact %r"
                        % (rc.sample_covar, want)))
                r2 = RunningCovariance()
                h = n // 2
                r2.update_from_it([x for x, _ in seq[:h]],
                                  [y for _, y in seq[:h]])
                r2.update_from_it([x for x, _ in seq[h:]],
                                  [y for _, y in seq[h:]])
                if r2.count != n or abs(r2.covar - float(cov)) > bound:
                    out["vio"].setdefault(tag + "chunking", (
                        seq, "fed in two chunks: covar %r, exact %r"
                        % (r2.covar, float(cov))))
        if n == task["depth"]:
            return
        for p in pa:
            r = copy.deepcopy(rc)
            r.update(*p)
            out["transitions"] += 1
            rec(seq + [p], r)

    r0 = RunningCovariance()
    p0 = pa[task["first"]]
    r0.update(*p0)
    rec([p0], r0)
    out["sample"] = {"part": "cov", "pairs": [list(p0), list(pa[1])]}
    return fin(out)


def run_matrix(task):
    import numpy as np
    from xyzpy.utils import RunningCovarianceMatrix

    reg = REGIMES[task["regime"]]
    al = alphabet(reg)
    n = task["n"]
    rows = [tuple(al[(i + k) % 5] * (1 + k % 2) + k * reg[1] for k in range(n))
            for i in range(5)]
    out = {"states": 0, "transitions": 0, "nontrivial": 0, "vio": {},
           "sample": {"part": "matrix", "n": n, "row": list(rows[0])}}
    tag = "C19|matrix|n%d|" % n
    scale = max(abs(v) for r in rows for v in r)
    for seq in itertools.product(range(5), repeat=task["depth"]):
        m = RunningCovarianceMatrix(n)
        # a second accumulator alive at the same time, fed other data in
        # between (the two must not influence each other)
        other = RunningCovarianceMatrix(n)
        data = [rows[i] for i in seq]

        def judge(k):
            """the accumulator after the first k rows"""
            out["states"] += 1
            cols = [[Fraction(r[c]) for r in data[:k]] for c in range(n)]
            means = [sum(c) / k for c in cols]
            exact = [[float(sum((a - means[i]) * (b - means[j])
                                for a, b in zip(cols[i], cols[j])) / k)
                      for j in range(n)] for i in range(n)]
            got = m.covar_matrix
            tol = 64 * k * EPS * scale * scale
            if m.count != k:
                out["vio"].setdefault(tag + "count", (list(seq[:k]), "count"))
            if not np.allclose(got, np.array(exact), rtol=0, atol=tol):
                out["vio"].setdefault(tag + "covar_matrix", (
                    list(seq[:k]), "covar_matrix %r, exact %r"
                    % (got.tolist(), exact)))
            if not np.array_equal(got, got.T):
                out["vio"].setdefault(tag + "symmetry",
                                      (list(seq[:k]), "not symmetric"))
            if k >= 2:
                sg = m.sample_covar_matrix
                if not np.allclose(sg, np.array(exact) * k / (k - 1), rtol=0,
                                   atol=tol * 2):
                    out["vio"].setdefault(tag + "sample_covar_matrix", (
                        list(seq[:k]), "sample covariance matrix off"))
                out["nontrivial"] += 1

        for j, r in enumerate(data):
            if (j + seq[0]) % 2:
                m.update(*r)
            else:
                m.update_from_it(*[[v] for v in r])
            other.update(*rows[(seq[j] + 2) % 5][::-1])
            out["transitions"] += 1
            # every intermediate state is read (reading must not change what
            # comes later); it is judged the first time its prefix comes up
            if j + 1 < len(data):
                if not any(seq[j + 1:]):
                    judge(j + 1)
                else:
                    m.covar_matrix
                    if j >= 1:
                        m.sample_covar_matrix
        if other.count != len(data):
            out["vio"].setdefault(tag + "interference", (
                list(seq), "a second accumulator counts %r after %d updates"
                % (other.count, len(data))))
        judge(len(data))
    return fin(out)


def run_repeats(task):
    import numpy as np
    from xyzpy.utils import estimate_from_repeats

    out = {"states": 0, "transitions": 0, "nontrivial": 0, "vio": {},
           "sample": None, "borderline": 0}
    rtol, ts, mn = task["rtol"], task["tol_scale"], task["min_samples"]
    tag = "C19|repeats|"
    sc = task.get("scale", 1.0)
    for mx in task["max_list"]:
        vals = [1.0, 1.1, 0.9, 0.0, -1.0] if mx <= 5 else [1.0, 1.1, 0.0]
        vals = [v * sc for v in vals]
        for seq in itertools.product(vals, repeat=mx):
            calls = [0]
            # what the sampled function hands back: a float, a numpy
            # scalar, a fresh 0-d / one-element array, or one buffer it
            # overwrites on every call
            form = core.pick([list(seq), rtol, mn, "form"], 6)
            buf = np.zeros(())

            def gen():
                v = seq[min(calls[0], len(seq) - 1)]
                calls[0] += 1
                if form == 1:
                    return np.float64(v)
                if form == 2:
                    return np.array(v)
                if form == 3:
                    return np.array([v])
                if form == 4:
                    buf[...] = v
                    return buf
                return v
            try:
                # (how much is printed has no say in when to stop)
                # (array-valued samples cannot be printed: quiet there)
                verb = core.pick([list(seq), rtol, mn, "verb"], 3) \
                    if form in (0, 1, 5) else 0
                with core.Silence():
                    rs, xs = estimate_from_repeats(
                        gen, rtol=rtol, tol_scale=ts, min_samples=mn,
                        max_samples=mx, get="samples", verbosity=verb)
            except Exception as e:
                out["vio"].setdefault(tag + "raised:" + type(e).__name__, (
                    [list(seq), rtol, ts, mn, mx], repr(e)))
                continue
            out["states"] += 1
            out["transitions"] += calls[0]
            n = calls[0]
            case = {"seq": list(seq), "rtol": rtol, "tol_scale": ts,
                    "min_samples": mn, "max_samples": mx, "form": form}
            if rs.count != n or n > mx or (form != 4 and np.asarray(
                    xs, dtype=float).ravel().tolist() != list(seq[:n])):
                out["vio"].setdefault(tag + "count", (
                    case, "count %r, calls %d, limit %d" % (rs.count, n, mx)))
                continue
            k, mu, var = exact_stats(seq[:n])
            if abs(rs.mean - float(mu)) > 1e-12 * max(1.0, sc) or abs(
                    rs.var - float(var)) > 1e-12 * max(1.0, sc * sc):
                out["vio"].setdefault(tag + "stats", (
                    case, "statistics are not those of the drawn samples"))
            if n < min(mn, mx):
                out["vio"].setdefault(tag + "min_samples", (
                    case, "stopped after %d < min_samples" % n))
            if n < mx:
                out["nontrivial"] += 1
                err = (float(var) ** 0.5) / n ** 0.5
                lim = rtol * abs(float(mu)) + ts * rtol
                if abs(err - lim) <= 1e-12 * max(1.0, lim):
                    out["borderline"] += 1
                elif not err < lim:
                    out["vio"].setdefault(tag + "stopped-early", (
                        case, "stopped after %d of %d samples although err "
                        "%r >= %r" % (n, mx, err, lim)))
    out["sample"] = {"part": "repeats", "rtol": rtol, "tol_scale": ts,
                     "min_samples": mn}
    return fin(out)


def fin(out):
    out["vio"] = [(k, w, c) for k, (c, w) in out["vio"].items()]
    return out


def run(ctx):
    ts = tasks(ctx.tier)
    ctx.rng.shuffle(ts)
    states = transitions = nontrivial = borderline = 0
    for out in ctx.map_unordered("run_task", ts):
        states += out["states"]
        transitions += out["transitions"]
        nontrivial += out["nontrivial"]
        borderline += out.get("borderline", 0)
        for k, w, c in out["vio"]:
            ctx.violation(k, w, {"case": c, "key": k})
        if out["sample"]:
            ctx.sample(out["sample"], limit=6)
    ctx.evaluations = states
    # states are distinct sequences by construction (each visited once)
    ctx.nontrivial_count = nontrivial
    ctx.coverage_extra.update({
        "states": states, "transitions": transitions,
        "traces_validated_against_impl": states,
        "borderline_skipped": borderline,
        "explanation": "states = update sequences (every prefix judged); the "
        "implementation's own update is the transition function",
    })


def replay(case):
    # re-run the part the key names; the stored case is the failing sequence
    key = case["key"]
    part = key.split("|")[1]
    vio = []
    for t in tasks("thorough"):
        if t["part"] != part:
            continue
        if part in ("stats", "cov", "long") and \
                "regime%d" % t["regime"] not in key:
            continue
        out = run_task(t)
        vio += [(k, w) for k, w, c in out["vio"]]
        if any(k == key for k, _ in vio):
            break
    return vio
