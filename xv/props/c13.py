"""C13 - missing-data discovery reports exactly the locations that have no
data."""
import copy
import itertools

from xv import core, fn as xfn

ID = "C13"
LEVEL = "exploration"
RULE = (
    "parameter grids 2, 3, 2x2, 3x2, 2x2x2 (thorough + 3x3, 2x2x2x2), numeric "
    "and string coordinates, 1-3 variables with / without an internal "
    "(labelled or unlabelled) "
    "dimension (ignored or not), every assignment of a kind to every "
    "location from {all data, all null, one variable null, partly null along "
    "the internal dimension, +-inf}, both criteria; find_missing_cases and "
    "parse_into_cases against a brute-force numpy oracle; plus the find -> "
    "harvest -> find loop on a real Harvester; non-trivial = datasets with "
    "at least one missing and one present location"
)
ASSUMPTIONS = [
    "grid order = row-major over the dataset's own dimension order",
    "one case = one whole dataset (all locations are judged); the full "
    "product of kinds is taken while 5^L stays under the tier's cap, three "
    "kinds beyond",
]

SHAPES_Q = [(2,), (3,), (2, 2), (3, 2), (2, 2, 2)]
SHAPES_T = SHAPES_Q + [(3, 3), (2, 2, 2, 2)]
KINDS = ["data", "null", "onevar", "partial", "inf"]
# (two of them are also names of keyword options of Dataset.sel)
PNAMES = ["b", "method", "a", "drop"]
# the internal dimension: its name contains parameter names as substrings
TDIM = "tab"
# (unsorted, and with labels that are false as Python values: 0, 0.0, '')
COORDS = {"num": [[3, 0, 2], [0.5, 0.0, 2.5], [0, 9, 8], [1, 2, 3]],
          "str": [["q", "", "zz"], ["x", "y", "w"], ["", "j", "l"],
                  ["u", "v", "t"]]}


def cases(tier, seed):
    shapes = SHAPES_Q if tier == "quick" else SHAPES_T
    cap = 700 if tier == "quick" else 4000
    for shp in shapes:
        L = 1
        for s in shp:
            L *= s
        for nvars, internal, ignore, ctype, method in itertools.product(
                (1, 2, 3), (False, True, "nolabel"), (False, True),
                ("num", "str"), ("isnull", "isfinite")):
            if ignore and not internal:
                continue
            if internal == "nolabel" and (ctype == "str" or (
                    tier == "quick" and nvars == 1)):
                # (the internal dimension without coordinate labels is
                # combined with numeric parameter labels only)
                continue
            if nvars == 3 and tier == "quick":
                continue
            kinds = None
            for ks in (KINDS, ["data", "null", "partial"], ["data", "null"]):
                if len(ks) ** L <= cap:
                    kinds = ks
                    break
            if kinds is None:
                # too many locations: every assignment with at most three
                # locations that are not plain data (deviation bounded)
                yield {"shape": list(shp), "nvars": nvars, "internal": internal,
                       "ignore": ignore, "ctype": ctype, "method": method,
                       "kinds": ["data", "null", "partial"], "bounded": 3,
                       "lo": 0, "hi": 0}
                continue
            n = len(kinds) ** L
            # whole lattices are chunked into ranges of assignment indices
            step = 250
            for lo in range(0, n, step):
                yield {"shape": list(shp), "nvars": nvars, "internal": internal,
                       "ignore": ignore, "ctype": ctype, "method": method,
                       "kinds": kinds, "lo": lo, "hi": min(n, lo + step),
                       "stored": (lo // step + nvars) % 3}
    # cells of an internal dimension that hold +inf next to a finite value
    # (data under either criterion), among plain and empty ones
    for shp in ((2,), (3,), (2, 2)):
        L = 1
        for s in shp:
            L *= s
        for nvars, ignore, method in itertools.product(
                (1, 2), (False, True), ("isnull", "isfinite")):
            yield {"shape": list(shp), "nvars": nvars, "internal": True,
                   "ignore": ignore, "ctype": "num", "method": method,
                   "kinds": ["data", "null", "infmix"], "lo": 0, "hi": 3 ** L,
                   "stored": (L + nvars) % 3}
    for method in ("isnull", "isfinite"):
        yield {"loop": True, "method": method}
        # variables of a type that cannot hold a null at all
        for vdt in ("int", "bool", "str"):
            if vdt == "str" and method == "isfinite":
                continue  # (finiteness of a string is not defined)
            yield {"nonnull": vdt, "method": method}


def worker_init():
    import xyzpy  # noqa


def make_ds(case, assign):
    import numpy as np
    import xarray as xr

    shp = case["shape"]
    names = PNAMES[: len(shp)]
    coords = {n: COORDS[case["ctype"]][i][:s]
              for i, (n, s) in enumerate(zip(names, shp))}
    nv, internal = case["nvars"], case["internal"]
    locs = list(itertools.product(*[range(s) for s in shp]))
    data = {}
    vnames = ["v%d" % i for i in range(nv)]
    for vi, v in enumerate(vnames):
        has_t = internal and vi == nv - 1
        arr = np.full(tuple(shp) + ((2,) if has_t else ()), 1.0 + vi)
        for loc, k in zip(locs, assign):
            if k == "data":
                continue
            if k == "null":
                arr[loc] = np.nan
            elif k == "inf":
                arr[loc] = np.inf if (sum(loc) + vi) % 2 else -np.inf
            elif k == "onevar":
                # the first variable is null, the others keep their data
                # (with a single variable: that variable is null)
                if vi == 0:
                    arr[loc] = np.nan
            elif k == "infmix":
                # +inf next to a finite value in the variable that has the
                # internal dimension, nothing in the other variables
                if has_t:
                    arr[loc + (0,)] = np.inf
                else:
                    arr[loc] = np.nan
            elif k == "partial":
                if has_t:
                    arr[loc + (0,)] = np.nan
                else:
                    arr[loc] = np.nan
        data[v] = (tuple(names) + ((TDIM,) if has_t else ()), arr)
    if internal and internal != "nolabel":
        coords[TDIM] = [10, 20]
    ds = xr.Dataset(data, coords=coords)
    if len(names) >= 2 and case.get("stored"):
        # the variables store their axes in another order than the dataset
        # lists its dimensions (coordinates declared first, variables added
        # afterwards with transposed axes)
        ds2 = xr.Dataset(coords=coords)
        for v in vnames:
            dd = list(ds[v].dims)
            ds2[v] = ds[v].transpose(*(dd[::-1] if case["stored"] == 1
                                       else dd[1:] + dd[:1]))
        ds = ds2
    return ds, names, coords, locs


def oracle(ds, fn_args, method):
    """brute force: locations (label tuples, row-major over fn_args) where
    every variable is entirely null"""
    import numpy as np

    out = []
    labels = [ds[a].values.tolist() for a in fn_args]
    for idx in itertools.product(*[range(len(l)) for l in labels]):
        missing = True
        for v in ds.data_vars:
            da = ds[v]
            sel = tuple(idx[fn_args.index(d)] if d in fn_args else slice(None)
                        for d in da.dims)
            block = np.asarray(da.values[sel], dtype=float)
            if method == "isnull":
                bad = np.isnan(block)
            else:
                bad = ~np.isfinite(block)
            if not bad.all():
                missing = False
                break
        if missing:
            out.append(tuple(l[i] for l, i in zip(labels, idx)))
    return out


def check_case(case):
    import numpy as np
    import xyzpy as xyz
    from xyzpy.gen.case_runner import find_missing_cases, parse_into_cases

    if case.get("loop"):
        return check_loop(case)
    if case.get("nonnull"):
        return check_nonnull(case)
    kinds = case["kinds"]
    shp = case["shape"]
    L = 1
    for s in shp:
        L *= s
    vio = []
    nontrivial = 0
    method = case["method"]

    def key(sym):
        return "C13|%s|%s|%s" % (method, "int-dim-ignored" if case["ignore"]
                                 else ("int-dim" if case["internal"]
                                       else "plain"), sym)

    def assignments():
        if case.get("bounded"):
            for k in range(case["bounded"] + 1):
                for where in itertools.combinations(range(L), k):
                    for what in itertools.product(kinds[1:], repeat=k):
                        a = ["data"] * L
                        for w, x in zip(where, what):
                            a[w] = x
                        yield a
            return
        for n in range(case["lo"], case["hi"]):
            a = []
            m = n
            for _ in range(L):
                a.append(kinds[m % len(kinds)])
                m //= len(kinds)
            yield a

    ndatasets = 0
    for n, assign in enumerate(assignments()):
        ndatasets += 1
        ds, names, coords, locs = make_ds(case, assign)
        # (the dimension to ignore named in a set or, alternately, as a
        # plain string)
        ignore = ({TDIM} if n % 2 else TDIM) if case["ignore"] else None
        fn_args = [d for d in ds.dims if not (case["ignore"] and d == TDIM)]
        want = oracle(ds, fn_args, method)
        before = ds.copy(deep=True)
        try:
            gargs, got = find_missing_cases(ds, ignore_dims=ignore,
                                            method=method)
        except Exception as e:
            vio.append((key("raised:" + type(e).__name__),
                        "shape %r kinds %r: %r" % (shp, assign, e)))
            continue
        got = [tuple(x.item() if hasattr(x, "item") else x for x in g)
               for g in got]
        if list(gargs) != fn_args or got != want:
            vio.append((key("find"),
                        "shape %r kinds %r (%d vars): reported %r, truly "
                        "missing %r" % (shp, assign, case["nvars"], got[:4],
                                        want[:4])))
        if not ds.identical(before):
            vio.append((key("mutated"), "find_missing_cases changed the "
                        "dataset"))
        if 0 < len(want) < np.prod([len(ds[a]) for a in fn_args]):
            nontrivial += 1
        # parse_into_cases over part of the grid plus foreign coordinates
        if n % 7 == 0 and not case["internal"]:
            a0 = names[0]
            foreign = 99 if case["ctype"] == "num" else "nope"
            pcases = [{a0: coords[a0][0]}, {a0: foreign}]
            pcombos = {a: coords[a] for a in names[1:]}
            # (the library gets its own copies, and the same ones twice: a
            # second identical query must give the same answer)
            lcases, lcombos = copy.deepcopy(pcases), copy.deepcopy(pcombos)
            try:
                res = parse_into_cases(combos=lcombos, cases=lcases, ds=ds,
                                       method=method)
                res2 = parse_into_cases(combos=lcombos, cases=lcases, ds=ds,
                                        method=method)
            except Exception as e:
                vio.append((key("parse-raised:" + type(e).__name__),
                            "parse_into_cases raised %r" % e))
                continue
            wantp = []
            wset = set(want)
            for c in pcases:
                for setting in itertools.product(*pcombos.values()):
                    full = dict(c, **dict(zip(pcombos, setting)))
                    lab = tuple(full[a] for a in fn_args)
                    if c[a0] == foreign or lab in wset:
                        wantp.append(full)
            if res != wantp or res2 != wantp:
                bad = res if res != wantp else res2
                vio.append((key("parse"),
                            "parse_into_cases reported %r, expected %r"
                            % (bad[:3], wantp[:3])))
            # cases over the first two parameters, written as dicts whose keys
            # come in alternating order, in an order that is not the grid's
            if len(names) >= 2:
                a1 = names[1]
                pairs = [(x, y) for y in coords[a1][::-1] for x in coords[a0]]
                dcases = [({a0: x, a1: y} if i % 2 == 0 else {a1: y, a0: x})
                          for i, (x, y) in enumerate(pairs)]
                rest = {a: list(coords[a]) for a in names[2:]}
                wantd = []
                for (x, y) in pairs:
                    for setting in itertools.product(*rest.values()):
                        full = dict({a0: x, a1: y}, **dict(zip(rest, setting)))
                        if tuple(full[a] for a in fn_args) in wset:
                            wantd.append(full)
                try:
                    resd = parse_into_cases(
                        combos=copy.deepcopy(rest) or None,
                        cases=copy.deepcopy(dcases), ds=ds, method=method)
                    if [dict(sorted(r.items())) for r in resd] != [
                            dict(sorted(r.items())) for r in wantd]:
                        vio.append((key("parse-dict-cases"),
                                    "parse_into_cases(cases as dicts with "
                                    "keys in varying order) reported %r, "
                                    "expected %r" % (resd[:3], wantd[:3])))
                except Exception as e:
                    vio.append((key("parse-raised:" + type(e).__name__),
                                "parse_into_cases (dict cases) raised %r" % e))
            # a request that names an argument the dataset has no dimension
            # for at all: nothing of it has been computed
            try:
                full = {a: list(coords[a]) for a in names}
                resn = parse_into_cases(
                    combos=copy.deepcopy(full), cases=[{"nodim": 1}], ds=ds,
                    method=method)
                wantn = [dict({"nodim": 1}, **dict(zip(names, pt)))
                         for pt in itertools.product(*full.values())]
                if [dict(sorted(r.items())) for r in resn] != [
                        dict(sorted(r.items())) for r in wantn]:
                    vio.append((key("parse-no-dimension"),
                                "requested an argument the dataset has no "
                                "dimension for: %d of %d locations reported"
                                % (len(resn), len(wantn))))
            except Exception as e:
                vio.append((key("parse-raised:" + type(e).__name__),
                            "parse_into_cases (unknown argument) raised %r"
                            % e))
            # the whole grid as combos only, then a query over fewer
            # parameters (one slice of the data) right afterwards
            queries = [(ds, list(names))]
            if len(names) >= 2:
                queries.append((ds.isel({names[-1]: 0}, drop=True),
                                list(names[:-1])))
            if case["ctype"] == "num":
                # (the same labels written as floats: 3.0 names the label 3)
                queries.append((ds, list(names), True))
            for q in queries:
                qds, qnames = q[0], q[1]
                asfloat = len(q) > 2
                qwant = [dict(zip(qnames, lab))
                         for lab in oracle(qds, qnames, method)]
                try:
                    qres = parse_into_cases(
                        combos={a: [float(v) for v in coords[a]] if asfloat
                                else list(coords[a]) for a in qnames}, ds=qds,
                        method=method)
                except Exception as e:
                    vio.append((key("parse-raised:" + type(e).__name__),
                                "parse_into_cases (combos only) raised %r" % e))
                    continue
                if qres != qwant:
                    vio.append((key("parse-combos"),
                                "parse_into_cases(combos over %r) reported "
                                "%r, expected %r" % (qnames, qres[:3],
                                                     qwant[:3])))
    return {"nontrivial": nontrivial > 0,
            "outcome": "lattice-chunk",
            "violations": vio, "counts": {"datasets": ndatasets,
                                          "datasets_nontrivial": nontrivial}}


def check_nonnull(case):
    """a complete dataset of integers / booleans / strings: nothing inside
    it is missing, every requested location outside it is"""
    import numpy as np
    import xarray as xr
    from xyzpy.gen.case_runner import find_missing_cases, parse_into_cases

    method, vdt = case["method"], case["nonnull"]
    arr = {"int": np.array([[1, 2], [3, 4]]),
           "bool": np.array([[True, False], [False, True]]),
           "str": np.array([["p", "q"], ["r", "s"]])}[vdt]
    ds = xr.Dataset({"out": (("a", "b"), arr)},
                    coords={"a": [1, 2], "b": [10, 20]})
    vio = []
    key = "C13|nonnull-%s|%s|" % (vdt, method)
    try:
        fa, got = find_missing_cases(ds, method=method)
        if list(got):
            vio.append((key + "inside", "a complete %s dataset: reported %r"
                        % (vdt, list(got)[:3])))
        res = parse_into_cases(combos={"a": [2, 3], "b": [10, 30]}, ds=ds,
                               method=method)
        want = [{"a": 2, "b": 30}, {"a": 3, "b": 10}, {"a": 3, "b": 30}]
        if res != want:
            vio.append((key + "outside", "requested a in [2, 3] x b in [10, "
                        "30] of a dataset holding a in [1, 2] x b in [10, "
                        "20]: reported %r, expected %r" % (res, want)))
        res = parse_into_cases(cases=[{"a": 1, "b": 10}, {"a": 7, "b": 10}],
                               ds=ds, method=method)
        if res != [{"a": 7, "b": 10}]:
            vio.append((key + "outside-cases", "requested (1,10) and (7,10): "
                        "reported %r" % (res,)))
    except Exception as e:
        vio.append((key + "raised:" + type(e).__name__, repr(e)))
    return {"nontrivial": True, "outcome": "nonnull", "violations": vio}


def check_loop(case):
    """find -> harvest exactly the reported cases -> find, on a Harvester"""
    import numpy as np
    import xarray as xr
    import xyzpy as xyz
    from xyzpy.gen.case_runner import find_missing_cases

    method = case["method"]
    # (the function's own signature lists the arguments in the dataset's
    # order, or the other way round)
    fs = [xfn.make_fn(["a", "b"], kind="num", name="f13"),
          xfn.make_fn(["b", "a"], kind="num", name="f13")]
    vio = []
    kinds = ["data", "null"] + (["inf"] if method == "isfinite" else [])
    n = 0
    for assign in itertools.product(kinds, repeat=4):
        arr = np.empty((2, 2))
        pts = list(itertools.product([1, 2], [10, 20]))
        for (i, (a, b)), k in zip(enumerate(pts), assign):
            arr.flat[i] = {"data": xfn.expected("num", dict(a=a, b=b)),
                           "null": np.nan, "inf": np.inf}[k]
        ds = xr.Dataset({"out": (("a", "b"), arr)},
                        coords={"a": [1, 2], "b": [10, 20]})
        f = fs[n % 2]
        h = xyz.Harvester(xyz.Runner(f, var_names="out"), full_ds=ds)
        fn_args, missing = find_missing_cases(h.full_ds, method=method)
        n += 1
        if not missing:
            continue
        with xfn.CallLog() as log:
            h.harvest_cases(missing, fn_args=fn_args, verbosity=0,
                            overwrite=True if "inf" in assign else None)
        if len(log.calls) != len(missing):
            vio.append(("C13|%s|loop|calls" % method, "harvested %d settings "
                        "for %d reported cases" % (len(log.calls), len(missing))))
        _, again = find_missing_cases(h.full_ds, method=method)
        if again:
            vio.append(("C13|%s|loop|still-missing" % method,
                        "after harvesting the reported cases %r, still "
                        "reported: %r" % (missing, again)))
        out = h.full_ds["out"]
        if sorted(out.dims) != ["a", "b"] or out.shape != (2, 2):
            vio.append(("C13|%s|loop|shape" % method, "after the loop the "
                        "dataset has dims %r shape %r" % (out.dims, out.shape)))
            continue
        for (a, b) in pts:
            v = out.sel(a=a, b=b).item()
            if v != xfn.expected("num", dict(a=a, b=b)):
                vio.append(("C13|%s|loop|value" % method,
                            "cell a=%r b=%r holds %r after the loop" % (a, b, v)))
                break
    return {"nontrivial": True, "outcome": "loop", "violations": vio,
            "counts": {"loop_datasets": n}}


def run(ctx):
    ctx.run_cases(cases(ctx.tier, ctx.seed), chunk=1)
    # one "case" is a chunk of a lattice; report datasets, not chunks (every
    # lattice point is visited exactly once, so the counts are of distinct
    # datasets by construction)
    nchunks = ctx.evaluations
    ctx.evaluations = ctx.counts.get("datasets", 0) + ctx.counts.get(
        "loop_datasets", 0)
    ctx.nontrivial_count = ctx.counts.get("datasets_nontrivial", 0)
    ctx.coverage_extra["lattice_chunks"] = nchunks
