"""C08 - reported progress always matches the batches that really finished.

Explicit-state BFS (xv.histbfs) over histories of sow / re-sow / grow /
Crop.grow / grow_missing / failing grows / result deletion / check_bad /
reload on crops of 1..8 batches; after every event the query bundle of the
live Crop object and of a freshly loaded one is compared with the disk truth
and with the reference model (a set of finished batch ids).
"""
import os
import re
import pickle
import itertools

from xv import core, fsseam, histbfs, fn as xfn

ID = "C08"
LEVEL = "model_checking"
RULE = (
    "BFS over event histories (depth <= 12 or fix-point) on crops of 1..8 "
    "batches with and without a remainder, plus crops of 12 and 101 batches "
    "(two- and three-digit ids) with a sparser alphabet to depth 3-5; state = (tree hash of the crop "
    "directory, whether the live Crop object is the sower or a reload and "
    "whether it holds the function sown last); events include a finished "
    "result damaged from outside followed by check_bad, and another session "
    "sowing another function over the still empty crop; every "
    "transition replays the whole history on fresh real objects; non-trivial "
    "= distinct reachable states"
)
ASSUMPTIONS = [
    "reference model: finished = set of batch ids; disk truth = result files "
    "that load and hold exactly the batch's expected values (independent "
    "reader)",
    "on a never-sown crop only is_ready_to_reap() is False is asserted",
    "merged states (same tree, same live-object kind) have equal futures for "
    "a deterministic library; every transition is nevertheless executed on an "
    "object that lived through a complete history, so stale in-memory state "
    "shows up at the first query after it became stale",
]

NAME = "k"
_LEARNED = {}


def _stable(snap):
    """the tree without left-over temporary files (anything in the crop
    directory that does not carry one of the official names)"""
    return {k: v for k, v in snap.items() if not fsseam.is_temporary(k)}


def configs(tier):
    # (N, mode, req) -> B
    q = [(2, "batchsize", 2), (2, "num_batches", 3), (4, "batchsize", 2),
         (3, "batchsize", 2), (6, "batchsize", 4),
         (3, "num_batches", 2),
         (5, "num_batches", 3), (6, "batchsize", 2), (7, "num_batches", 4),
         (4, "batchsize", 1), (5, "batchsize", 2)]
    # two- and three-digit batch ids: a sparser alphabet, bounded depth
    wide = [{"N": 12, "mode": "batchsize", "req": 1, "alpha": "sparse",
             "depth": 4 if tier == "quick" else 5,
             "max_states": 150 if tier == "quick" else 1500},
            {"N": 101, "mode": "num_batches", "req": 101, "alpha": "sparse",
             "depth": 3 if tier == "quick" else 4,
             "max_states": 60 if tier == "quick" else 400}]
    # a function that returns nothing (run for its side effects): a finished
    # batch is a finished batch
    wide += [{"N": 4, "mode": "batchsize", "req": 2, "alpha": "full",
              "depth": 12, "kind": "none"}]
    # crops sown from cases
    wide += [{"N": 3, "mode": "batchsize", "req": 1, "alpha": "full",
              "depth": 12, "cases": True},
             {"N": 4, "mode": "num_batches", "req": 2, "alpha": "full",
              "depth": 12, "cases": True}]
    if tier == "quick":
        return [{"N": n, "mode": m, "req": r, "alpha": "full", "depth": 12}
                for n, m, r in q] + wide
    t = [{"N": n, "mode": m, "req": r, "alpha": "full", "depth": 12}
         for n, m, r in q + [(9, "num_batches", 5), (5, "batchsize", 1),
                             (7, "batchsize", 3)]]
    t += [{"N": n, "mode": m, "req": r, "alpha": "grow", "depth": 12}
          for n, m, r in [(11, "num_batches", 6), (7, "batchsize", 1),
                          (15, "num_batches", 8), (16, "batchsize", 2)]]
    return t + wide


def nbatches(cfg):
    n, m, r = cfg["N"], cfg["mode"], cfg["req"]
    return -(-n // r) if m == "batchsize" else min(r, n)


class World:
    def __init__(self, cfg, d, tier):
        self.cfg, self.d, self.tier = cfg, d, tier
        self.B = nbatches(cfg)
        self.N = cfg["N"]
        self.kind = cfg.get("kind", "num")
        self.fs = [xfn.make_fn(["a"], kind=self.kind, name="f08", version=v)
                   for v in (0, 1)]
        self.f = self.fs[0]
        self.ver = 0  # which function was sown last
        self.live_ver = 0  # which function the live Crop object holds
        self.combos = {"a": [3 * i + 1 for i in range(self.N)]}
        self.live = None
        self.live_kind = "none"
        self.sown = False
        self.batches = None  # learned: batch id -> [enc of settings]
        self.resfile = {}  # learned: batch id -> relative result path

    # ---- helpers --------------------------------------------------------- #
    def fresh(self):
        import xyzpy as xyz

        return xyz.Crop(name=NAME, parent_dir=self.d)

    def sow(self):
        import xyzpy as xyz

        if self.live is None or not self.sown:
            self.live = xyz.Crop(fn=self.f, name=NAME, parent_dir=self.d,
                                 **{self.cfg["mode"]: self.cfg["req"]})
            self.live_kind = "sower"
            self.live_ver = 0
        self._sow(self.live)
        self.sown = True
        if self.batches is None:
            self.learn()

    def learn(self):
        """batch contents and result paths, read through the API on a copy"""
        from xyzpy.gen.cropping import grow

        # (what each batch holds depends on the configuration only: learned
        # once per worker process)
        ck = (self.N, self.cfg["mode"], self.cfg["req"])
        if ck in _LEARNED:
            self.batches, self.resfile = (dict(x) for x in _LEARNED[ck])
            return
        snap = fsseam.snapshot(self.d)
        self.batches = {}
        for i in range(1, self.B + 1):
            before = set(fsseam.snapshot(self.d))
            with xfn.CallLog() as log:
                grow(i, crop=self.fresh(), verbosity=0)
            self.batches[i] = log.encs()
            new = sorted(set(fsseam.snapshot(self.d)) - before)
            official = os.path.join(".xyz-" + NAME, "results",
                                    "xyz-result-%d.jbdmp" % i)
            if len(new) > 1 or (new and new[0] != official):
                raise core.HarnessError("growing batch %d alone created %r"
                                        % (i, new))
            # (a tree on which that grow leaves nothing behind is judged by
            # the events, not here)
            self.resfile[i] = official
        fsseam.restore(self.d, snap)
        _LEARNED[ck] = (dict(self.batches), dict(self.resfile))

    def expected_result(self, i):
        return tuple(xfn.value(self.kind, e, self.ver)
                     for e in self.batches[i])

    def disk_finished(self):
        out = set()
        if not self.batches:
            return out
        for i in range(1, self.B + 1):
            p = os.path.join(self.d, self.resfile[i])
            try:
                with open(p, "rb") as fh:
                    if tuple(pickle.load(fh)) == self.expected_result(i):
                        out.add(i)
            except Exception:
                pass
        return out

    # ---- events ---------------------------------------------------------- #
    def enabled(self, finished):
        B = self.B
        if not self.sown:
            return [["sow"]]
        if self.cfg["alpha"] == "sparse":
            ids = sorted({1, 2, 9, 10, 11, B - 1, B})
            ev = [["grow", i] for i in ids]
            ev += [["cgrow", [10, 9]], ["cgrow", [B, 1]], ["grow_missing"],
                   ["fgrow", 10], ["ugrow", B], ["check_bad"], ["reload"]]
            ev += [["delete", i] for i in sorted(finished)[-2:]]
            return ev
        ev = [["grow", i] for i in range(1, B + 1)]
        if self.cfg["alpha"] == "grow":
            ev += [["grow_missing"], ["cgrow", [1, B]], ["reload"]]
            ev += [["delete", i] for i in sorted(finished)[:2]]
            return ev
        if self.live_ver == self.ver:
            # (sowing again through the live object sows *its* function)
            ev.append(["sow"])
        ids = list(range(1, B + 1))
        subsets = [list(s) for k in (2,) for s in itertools.combinations(ids, k)]
        if self.tier == "thorough" and B <= 4:
            subsets += [list(s) for k in range(3, B + 1)
                        for s in itertools.combinations(ids, k)]
            subsets += [[ids[-1], ids[0]]]  # descending order
        ev += [["cgrow", s] for s in subsets]
        ev.append(["grow_missing"])
        fail_ids = sorted({1, B})
        ev += [["fgrow", i] for i in fail_ids]
        ev += [["fcgrow", i] for i in fail_ids]
        ev += [["ugrow", B]]
        missing = [i for i in ids if i not in finished]
        if missing:
            ev.append(["fgrow_missing", missing[-1]])
        ev += [["delete", i] for i in sorted(finished)]
        ev += [["check_bad"], ["reload"]]
        # a finished result damaged from outside, then check_bad
        fl = sorted(finished)
        for i in sorted({fl[0], fl[-1]} if fl else ()):
            ev.append(["badcheck", i, "garbage"])
            if len(self.batches[i]) >= 1:
                ev.append(["badcheck", i, "short" if i % 2 else "long"])
        if self.live_ver == self.ver:
            # a re-sow through the live object asking for another number of
            # batches than it remembers: refused, nothing changes on disk,
            # nothing changes in what it reports
            ev.append(["bad_resow"])
        if not finished:
            # another session sows another function over the (still empty)
            # crop; the live object stays as it is
            ev.append(["resow_other"])
            if self.live_ver == self.ver:
                # the function is corrected on the live object (crop.fn = ...)
                # and the crop sown again through it
                ev.append(["refn"])
        return ev

    def apply(self, ev, finished):
        """run one event on the live objects; returns (violations, new model
        finished set or None if unknown, outcome tag)"""
        from xyzpy.gen.cropping import grow

        kind = ev[0]
        vio = []
        before = _stable(fsseam.snapshot(self.d))
        new_finished = set(finished)
        tag = kind

        def key(sym):
            return "C08|B%d|%s|%s" % (self.B, kind, sym)

        def changed():
            after = _stable(fsseam.snapshot(self.d))
            return sorted(k for k in set(before) | set(after)
                          if before.get(k, 0) != after.get(k, 0))

        if kind == "sow":
            self.sow()
            ch = [c for c in changed() if "results" + os.sep in c]
            if finished and ch:
                vio.append((key("results-touched"),
                            "re-sowing with the same shape changed results %r"
                            % ch))
        elif kind in ("grow", "cgrow"):
            ids = [ev[1]] if kind == "grow" else ev[1]
            with xfn.CallLog() as log:
                if kind == "grow":
                    grow(ev[1], crop=self.live, verbosity=0)
                elif len(finished) % 2:
                    # (the ids as a one-shot iterator)
                    self.live.grow((i_ for i_ in ids), verbosity=0)
                else:
                    self.live.grow(ids, verbosity=0)
            want = [e for i in ids for e in self.batches[i]]
            if sorted(log.encs()) != sorted(want):
                vio.append((key("calls"), "grow %r evaluated %r, expected %r"
                            % (ids, log.encs()[:4], want[:4])))
            allowed = {self.resfile[i] for i in ids}
            bad = [c for c in changed() if c not in allowed]
            if bad:
                vio.append((key("other-files"),
                            "growing %r also changed %r" % (ids, bad)))
            new_finished |= set(ids)
        elif kind == "grow_missing":
            missing = [i for i in range(1, self.B + 1) if i not in finished]
            with xfn.CallLog() as log:
                try:
                    self.live.grow_missing(verbosity=0)
                    err = None
                except Exception as e:
                    err = e
            if err is not None:
                vio.append((key("raised" if missing else "raised-none-missing"),
                            "grow_missing() with missing=%r raised %r"
                            % (missing, err)))
            else:
                want = [e for i in missing for e in self.batches[i]]
                if sorted(log.encs()) != sorted(want):
                    vio.append((key("calls"),
                                "grow_missing with missing %r evaluated %d "
                                "settings, expected exactly the %d of those "
                                "batches" % (missing, len(log.calls), len(want))))
                new_finished = set(range(1, self.B + 1))
        elif kind in ("fgrow", "fcgrow", "fgrow_missing"):
            j = ev[1]
            bad_setting = self.batches[j][-1]
            # (the function fails with an ordinary error or, alternately,
            # with StopIteration - which generators and map() treat specially)
            # (... or with KeyboardInterrupt, which is not an Exception)
            exc = [None, "StopIteration", "KeyboardInterrupt"][
                (j + len(finished)) % 3]
            with xfn.FailSet([bad_setting], exc=exc), xfn.CallLog():
                try:
                    if kind == "fgrow":
                        grow(j, crop=self.live, verbosity=0)
                    elif kind == "fcgrow":
                        self.live.grow([j], verbosity=0)
                    else:
                        self.live.grow_missing(verbosity=0)
                    raised = False
                except (Exception, KeyboardInterrupt):
                    raised = True
            if not raised:
                vio.append((key("no-error"),
                            "growing batch %d whose function raised did not "
                            "raise" % j))
            if kind == "fgrow_missing":
                # batches before j may have finished; j itself must not
                new_finished = None
                ok_files = {self.resfile[i] for i in range(1, self.B + 1)
                            if i not in finished and i != j}
            else:
                ok_files = set()
                # a failed grow of an already finished batch keeps the result
            bad = [c for c in changed() if c not in ok_files]
            if bad:
                vio.append((key("files-changed"),
                            "a grow that raised changed %r" % bad))
        elif kind == "ugrow":
            # the function succeeds but its result cannot be written
            j = ev[1]
            with xfn.UnpicklableSet([self.batches[j][-1]]), xfn.CallLog():
                try:
                    grow(j, crop=self.live, verbosity=0)
                    raised = False
                except Exception:
                    raised = True
            if not raised:
                vio.append((key("no-error"), "a grow whose result could not "
                            "be written did not raise"))
            bad = changed()
            if bad:
                vio.append((key("files-changed"),
                            "a grow that failed while writing changed %r" % bad))
        elif kind == "delete":
            os.remove(os.path.join(self.d, self.resfile[ev[1]]))
            new_finished.discard(ev[1])
        elif kind == "check_bad":
            with core.Silence():
                bad_ids = self.live.check_bad()
            if bad_ids or changed():
                vio.append((key("deleted-healthy"),
                            "check_bad() on healthy results returned %r and "
                            "changed %r" % (bad_ids, changed())))
        elif kind == "reload":
            self.live = self.fresh()
            self.live_kind = "reload"
            self.live_ver = self.ver
        elif kind == "badcheck":
            j, how = ev[1], ev[2]
            p_ = os.path.join(self.d, self.resfile[j])
            if how == "garbage":
                with open(p_, "rb") as fh:
                    raw = fh.read()
                with open(p_, "wb") as fh:
                    fh.write(raw[: max(1, len(raw) // 2)])
            else:
                with open(p_, "rb") as fh:
                    good = tuple(pickle.load(fh))
                with open(p_, "wb") as fh:
                    pickle.dump(good[:-1] if how == "short"
                                else good + good[-1:], fh)
            before = _stable(fsseam.snapshot(self.d))
            with core.Silence():
                bad_ids = self.live.check_bad()
            got_ids = sorted(int(b) for b in bad_ids)
            if got_ids != [j] or changed() != [self.resfile[j]]:
                vio.append((key("wrong-ones"),
                            "result %d was damaged (%s): check_bad() returned "
                            "%r and changed %r" % (j, how, bad_ids, changed())))
            new_finished.discard(j)
        elif kind == "bad_resow":
            before = _stable(fsseam.snapshot(self.d))
            try:
                if self.cfg.get("cases"):
                    self.live.sow_cases(
                        ["a"], [(v,) for v in self.combos["a"]], verbosity=0,
                        num_batches=self.B + 1)
                else:
                    self.live.sow_combos(self.combos, verbosity=0,
                                         num_batches=self.B + 1)
            except ValueError:
                if _stable(fsseam.snapshot(self.d)) != before:
                    vio.append((key("refused-but-changed"), "a refused "
                                "re-sow changed the crop on disk"))
            else:
                if _stable(fsseam.snapshot(self.d)) != before:
                    raise core.HarnessError(
                        "re-sow with num_batches=B+1 was accepted: not "
                        "modelled")
        elif kind == "refn":
            self.ver = 1 - self.ver
            self.live.fn = self.fs[self.ver]
            self._sow(self.live)
            self.live_ver = self.ver
        elif kind == "resow_other":
            import xyzpy as xyz

            self.ver = 1 - self.ver
            other = xyz.Crop(fn=self.fs[self.ver], name=NAME,
                             parent_dir=self.d,
                             **{self.cfg["mode"]: self.cfg["req"]})
            self._sow(other)
        else:
            raise core.HarnessError("unknown event %r" % (ev,))
        return vio, new_finished, tag

    def _sow(self, crop):
        if self.cfg.get("cases"):
            # (sown as a list of cases: the same settings, the other entry)
            crop.sow_cases(["a"], [(v,) for v in self.combos["a"]],
                           verbosity=0)
        else:
            crop.sow_combos(self.combos, verbosity=0)

    # ---- invariant --------------------------------------------------------- #
    def check_queries(self, finished, kind):
        vio = []
        truth = self.disk_finished()
        B = self.B
        if finished is not None and truth != set(finished):
            vio.append(("C08|B%d|%s|disk-vs-model" % (B, kind),
                        "finished on disk %r, reference model %r"
                        % (sorted(truth), sorted(finished))))
        for who, crop in (("live", self.live), ("fresh", self.fresh())):
            def key(sym):
                return "C08|B%d|%s|%s-%s" % (B, kind, who, sym)
            try:
                nsown = crop.num_sown_batches
                nres = crop.num_results
                missing = tuple(crop.missing_results())
                ready = crop.is_ready_to_reap()
                text = str(crop)
            except Exception as e:
                vio.append((key("query-raised"), "progress query raised %r" % e))
                continue
            want_missing = tuple(i for i in range(1, B + 1) if i not in truth)
            if nsown != B:
                vio.append((key("num_sown"), "num_sown_batches=%r, B=%d"
                            % (nsown, B)))
            if nres != len(truth):
                vio.append((key("num_results"),
                            "num_results=%r but finished on disk %r"
                            % (nres, sorted(truth))))
            if missing != want_missing:
                vio.append((key("missing"), "missing_results()=%r, truly "
                            "missing %r" % (missing, want_missing)))
            if bool(ready) != (len(truth) == B):
                vio.append((key("ready"), "is_ready_to_reap()=%r with "
                            "finished %r of %d" % (ready, sorted(truth), B)))
            if "%d / %d batches" % (len(truth), B) not in text:
                vio.append((key("str"), "str(crop) does not show %d / %d: %r"
                            % (len(truth), B, text.strip().split("\n")[-2:])))
        return vio, truth


def build(cfg, hist, d, tier):
    """replay a history; returns (world, finished model, violations seen)"""
    core.fresh_dir(os.path.basename(d))
    w = World(cfg, d, tier)
    finished = set()
    for ev in hist:
        vio, nf, _ = w.apply(ev, finished)
        finished = w.disk_finished() if nf is None else nf
        # the live object is queried after every event, as a user would
        w.check_queries(finished, ev[0])
    return w, finished


def canon(w):
    # w.ver is model state: a tree that leaves a stale function on disk must
    # not have the state after "refn" merged with the one before it
    return "%s|%s|%s|%d" % (fsseam.snap_hash(_stable(fsseam.snapshot(w.d))),
                            w.live_kind, w.live_ver == w.ver, w.ver)


def scratch_name(cfg):
    """where the crop lives: for every other configuration a directory whose
    name holds the crop's own words and glob characters, else a plain one (a
    tree that globs without escaping is blind in the former)"""
    if cfg["mode"] == "batchsize" and cfg["N"] % cfg["req"]:
        # (a short last batch - the one a sowing saves on its way out - is met
        # in both kinds of directory)
        return ["c08.results[1].batches", "c08"][cfg["N"] % 2]
    return ["c08.results[1].batches", "c08"][
        core.pick([cfg["N"], cfg["mode"], cfg["req"], "dir"], 2)]


def expand(task):
    cfg, hist = task
    tier = os.environ.get("XV_TIER", "quick")
    d = os.path.join(core.scratch_root(), scratch_name(cfg))
    w, finished = build(cfg, hist, d, tier)
    out = {"hist": hist, "succ": []}
    if not hist:
        out["init_key"] = canon(w)
        # never-sown crop: only is_ready_to_reap() is False is asserted
        import xyzpy as xyz

        c0 = xyz.Crop(fn=w.f, name=NAME, parent_dir=d)
        if c0.is_ready_to_reap() is not False:
            out["succ"].append((["query"], None, [
                ("C08|unsown|ready", "is_ready_to_reap() on a never-sown crop "
                 "is not False")], None))
    events = w.enabled(finished)
    for n, ev in enumerate(events):
        if n:
            w, finished = build(cfg, hist, d, tier)
        try:
            vio, nf, tag = w.apply(ev, finished)
        except core.HarnessError:
            raise
        except Exception as e:
            vio, nf, tag = [("C08|B%d|%s|raised:%s" % (
                w.B, ev[0], type(e).__name__),
                "event %r raised %r" % (ev, e))], finished, ev[0]
        qv, truth = w.check_queries(nf, ev[0])
        out["succ"].append((ev, canon(w), vio + qv,
                            "%s:%d/%d" % (tag, len(truth), w.B)))
    return out


def run(ctx):
    os.environ["XV_TIER"] = ctx.tier
    states = transitions = 0
    per = {}
    for cfg in configs(ctx.tier):
        r = histbfs.bfs(ctx, "expand", cfg, cfg["depth"],
                        max_states=cfg.get("max_states"),
                        label="N%d%s%d%s" % (cfg["N"], cfg["mode"][0],
                                             cfg["req"],
                                             ("c" if cfg.get("cases") else "")
                                             + ("n" if cfg.get("kind") else "")))
        states += r["states"]
        transitions += r["transitions"]
        per["N=%d %s=%d (%s%s)" % (cfg["N"], cfg["mode"], cfg["req"],
                                   cfg["alpha"], (", sown from cases"
                                   if cfg.get("cases") else "") + (
                                       ", results None" if cfg.get("kind")
                                       else ""))] = r
        if not r["fixpoint"]:
            ctx.exhaustive = False
    ctx.coverage_extra.update({
        "states": states, "transitions": transitions,
        "traces_validated_against_impl": transitions,
        "per_configuration": per,
        "explanation": "the implementation itself is the transition relation; "
        "every transition is executed on real objects after replaying the "
        "history that reaches its source state",
    })


def replay(case):
    tier = "thorough"
    d = os.path.join(core.scratch_root(), scratch_name(case["cfg"]))
    hist = case["history"]
    w, finished = build(case["cfg"], hist[:-1], d, tier)
    try:
        vio, nf, tag = w.apply(hist[-1], finished)
    except Exception as e:
        vio, nf = [("C08|B%d|%s|raised:%s" % (w.B, hist[-1][0],
                                            type(e).__name__), repr(e))], finished
    qv, _ = w.check_queries(nf, hist[-1][0])
    return vio + qv
