"""C12 - a crop is deleted only after its data is safely delivered.

Fault enumeration: every option mix of reap on raw / Runner / Harvester /
Sampler crops, with each semantic failure (incomplete crop, unreadable
result, wrong output description, merge conflict) and with one injected
OSError at every file operation of the reap, each followed by the corrected
retry.
"""
import os
import itertools

from xv import core, fsseam, cmp, fn as xfn
from xv.props import c10

ID = "C12"
LEVEL = "fault_enumeration"
RULE = (
    "clean_up x allow_incomplete x wait x farmer kind x {complete, one batch "
    "missing} x failure in {none, incomplete, garbage result, wrong output "
    "description, merge conflict, OSError injected at op k of the reap for "
    "every open/read/write/close/rename op k}; after a raise the crop tree "
    "must be byte-identical and the corrected retry exact; after success the "
    "directory exists iff the documented rule says so; non-trivial = cases "
    "with a failure"
)
ASSUMPTIONS = [
    "faults are injected at open/read/write/close/rename/truncate of "
    "Python-level file operations (HDF5 writes are not reachable; the joblib "
    "and pickle engines cover data-file faults); stat/list are not faulted "
    "because os.path.exists() turns such errors into 'absent'",
    "faults in the unlink/rmdir calls of the clean-up itself are outside "
    "the property (the delivery already happened)",
    "wait=True is only combined with complete crops (it would wait forever)",
]

SCNS = ["raw-bs2", "raw-bool", "runner", "runner3", "runner-df", "harv-jl-overlap",
        "harv-h5-disjoint", "harv-jl-none", "harv-mem", "samp-pkl",
        "samp-pkl-none", "harv-h5-noext", "harv-h5-lazy"]
# failures whose corrected retry is also made through the very objects (Crop
# and its farmer) that saw the failure - a long-lived session
LIVE = ("incomplete", "garbage", "shortres", "overlong", "conflict", "fault")
CROPDIR = ".xyz-k"


def cases(tier, seed):
    scns = SCNS if tier == "quick" else SCNS + ["raw-nb4", "samp-csv"]
    for scn in scns:
        for cu, ai, wait, state in itertools.product(
                (None, True, False), (False, True), (False, True),
                ("complete", "missing")):
            if wait and state == "missing":
                continue
            fails = ["none"]
            if state == "missing" and not ai:
                fails = ["incomplete"]
            if state == "complete":
                fails += ["garbage", "overlong", "shortres"]
                if scn in ("runner", "runner3") or scn.startswith("harv"):
                    # (DataFrame output does not validate the description)
                    fails.append("wrongdesc")
                    if scn == "runner3":
                        fails.append("wrongconst")
                if scn.startswith("harv") and scn != "harv-mem":
                    fails.append("conflict")
                fails.append("fault")
            elif tier == "thorough" and ai:
                fails.append("fault")
            for fl in fails:
                for live in ((False, True) if fl in LIVE else (False,)):
                    yield {"scn": scn, "clean_up": cu, "allow_incomplete": ai,
                           "wait": wait, "state": state, "failure": fl,
                           "live": live}


    # a Harvester's crop reaped without syncing to disk: the result is
    # delivered in memory and the clean_up setting is honoured all the same
    for scn in scns:
        if scn.startswith("harv"):
            for cu in (None, True, False):
                yield {"scn": scn, "clean_up": cu, "allow_incomplete": False,
                       "wait": False, "state": "complete", "failure": "none",
                       "live": False, "nosync": True}
    # a long-lived Crop object that looked at the crop while it was still a
    # smaller sweep; the sow script was then run again with the full sweep
    # and everything grown: the reap through that object delivers all of it
    for scn in scns:
        if scn.startswith("samp"):
            continue
        for cu in (None, True, False):
            yield {"scn": scn, "clean_up": cu, "allow_incomplete": False,
                   "wait": False, "state": "complete", "failure": "none",
                   "live": True, "stale": True}


def worker_init():
    import xyzpy  # noqa


def crop_tree(d):
    return {k: v for k, v in fsseam.snapshot(d).items()
            if k == CROPDIR or k.startswith(CROPDIR + os.sep)}


class Env:
    def __init__(self, case):
        import builtins

        self.case = case
        scn = case["scn"]
        self.to_df = scn == "runner-df"
        self.sc = c10.Scn("runner" if self.to_df else scn)
        self.nset = 6
        self.d = os.path.join(core.scratch_root(), "c12.results[1].batches")
        core.fresh_dir("c12.results[1].batches")
        builtins._xv_draw_a = builtins._xv_draw_b = 0
        _sibling(self.d)
        sc = self.sc
        # (the farmer that harvested the earlier data is the one the crop is
        # sown from: it holds that data in memory and is pickled with it)
        far = sc.farmer(self.d)
        if sc.earlier:
            sc.seed_earlier(self.d, far)
        self.earlier_rows = []
        if sc.kind == "sampler" and sc.earlier:
            self.earlier_rows = sc.load_data(self.d)
        self.live = None
        if case.get("stale"):
            crop0 = sc.new_crop(self.d, far=far)
            crop0.sow_combos({"a": sc.combos["a"][:-1], "b": sc.combos["b"]},
                             verbosity=0)
            self.live = sc.fresh_crop(self.d)
            self.live.is_ready_to_reap()
            if self.live.num_batches != crop0.num_batches:
                raise core.HarnessError("stale scenario: reload differs")
            crop = sc.new_crop(self.d, autoload=False, far=far)
        else:
            crop = sc.new_crop(self.d, far=far)
        sc.sow(crop)
        self.B = crop.num_batches
        ids = list(range(1, self.B + 1))
        if case["state"] == "missing":
            ids = ids[:-1]
        crop.grow(ids, verbosity=0)
        self.base = fsseam.snapshot(self.d)

    def opts(self, overwrite=None):
        c = self.case
        o = dict(clean_up=c["clean_up"], allow_incomplete=c["allow_incomplete"],
                 wait=c["wait"])
        if self.sc.kind == "harvester":
            o["overwrite"] = overwrite
        return o

    def session(self):
        """the Crop (and farmer) object the next reap goes through: one
        long-lived object for 'live' cases, a new session otherwise"""
        if not self.case.get("live"):
            return self.sc.fresh_crop(self.d)
        if self.live is None:
            self.live = self.sc.fresh_crop(self.d)
        return self.live

    def reap(self, crop=None, **over):
        crop = crop or self.session()
        self.sc.live_farmer = crop.farmer
        o = self.opts()
        o.update(over)
        if self.to_df:
            o.pop("overwrite", None)
            return crop.reap_runner(crop.farmer, to_df=True, **o)
        return crop.reap(**o)

    def judge(self, res):
        if self.to_df:
            rows = cmp.df_rows(res)
            nmiss = 0
            for r in rows:
                if r.get("out") is None:
                    nmiss += 1
                elif not self.sc.row_ok(r):
                    return "wrong:row %r" % (r,)
            if len(rows) != 6:
                return "wrong:%d rows" % len(rows)
            return "exact" if not nmiss else "partial"
        return self.sc.judge_reaped(res)


SIBLING = CROPDIR + "-fine"


def check_case(case):
    """every scenario runs next to another crop whose name begins like the
    one reaped (sown and grown, never reaped): it is nobody's to delete"""
    import xyzpy as xyz

    r = _check_case(case)
    d = os.path.join(core.scratch_root(), "c12.results[1].batches")
    left = sorted(k for k in fsseam.snapshot(d)
                  if k.startswith(SIBLING + os.sep) and "xyz-result" in k)
    if len(left) != 2:
        r["violations"].append((
            "C12|%s|%s|other-crop-deleted" % (case["scn"], case["failure"]),
            "the grown, unreaped crop 'k-fine' next to the one reaped: "
            "results left %r" % left))
    return r


def _sibling(d):
    import xyzpy as xyz

    sib = xyz.Crop(fn=xfn.make_fn(["a"], kind="num", name="f12s"),
                   name="k-fine", parent_dir=d, batchsize=1)
    sib.sow_combos({"a": [1, 2]}, verbosity=0)
    sib.grow_missing(verbosity=0)


def _check_case(case):
    import xyzpy as xyz

    env = Env(case)
    sc, d = env.sc, env.d
    vio = []
    fl = case["failure"]

    def key(sym):
        return "C12|%s|%s|cu=%s,ai=%s|%s" % (case["scn"], fl, case["clean_up"],
                                            case["allow_incomplete"], sym)

    expect_exists = (case["clean_up"] is False) or (
        case["clean_up"] is None and case["allow_incomplete"])
    if case.get("nosync"):
        try:
            crop = env.session()
            res = crop.reap(sync=False, clean_up=case["clean_up"])
            j = env.judge(res)
            if j != "exact":
                vio.append((key("nosync-result"), "reap(sync=False) "
                            "returned %s" % j))
            exists = os.path.exists(os.path.join(d, CROPDIR))
            if exists != expect_exists:
                vio.append((key("nosync-dir"), "after reap(sync=False, "
                            "clean_up=%r) the crop directory %s" % (
                                case["clean_up"],
                                "exists" if exists else "is gone")))
        except Exception as e:
            vio.append((key("nosync-raised:" + type(e).__name__), repr(e)))
        return fin(case, vio, "nosync")

    def after_success(res, state_complete, tag):
        j = env.judge(res)
        want = "exact" if state_complete else "partial"
        if j != want and not (j == "exact" and want == "partial"):
            vio.append((key(tag + "-result"), "reap returned %s" % j))
        exists = os.path.exists(os.path.join(d, CROPDIR))
        if exists != expect_exists:
            vio.append((key(tag + "-dir"),
                        "after a successful reap the crop directory %s "
                        "(clean_up=%r, allow_incomplete=%r)" % (
                            "exists" if exists else "is gone",
                            case["clean_up"], case["allow_incomplete"])))
        if state_complete and sc.kind in ("harvester", "sampler"):
            dj = sc.judge_data(d, env.earlier_rows)
            if dj:
                vio.append((key(tag + "-data"), "data file: %s" % dj))

    def after_raise(pre, err, tag):
        now = crop_tree(d)
        if now != pre:
            diff = sorted(k for k in set(pre) | set(now)
                          if pre.get(k, 0) != now.get(k, 0))
            vio.append((key(tag + "-crop-changed"),
                        "reap raised %s but crop files changed: %r"
                        % (type(err).__name__, diff[:4])))

    # ---------------------------------------------------------------- none
    if fl == "none":
        try:
            res = env.reap()
            after_success(res, case["state"] == "complete", "ok")
            # order of delivery and deletion (harvester / sampler)
        except Exception as e:
            vio.append((key("raised:" + type(e).__name__),
                        "reap raised %r" % e))
        return fin(case, vio, "none")
    # ---------------------------------------------------------- incomplete
    if fl == "incomplete":
        pre = crop_tree(d)
        try:
            env.reap()
            vio.append((key("not-refused"), "incomplete crop was reaped"))
        except Exception as e:
            after_raise(pre, e, "refused")
            env.session().grow_missing(verbosity=0)
            try:
                after_success(env.reap(), True, "retry")
            except Exception as e2:
                vio.append((key("retry-raised:" + type(e2).__name__),
                            "retry after growing the missing batch raised %r"
                            % e2))
        return fin(case, vio, "incomplete")
    # ----------------------------------------------------- garbage / overlong
    if fl in ("garbage", "overlong", "shortres"):
        rfs = sorted(k for k in env.base
                     if k.startswith(CROPDIR + os.sep + "results" + os.sep))
        if len(rfs) != env.B:
            raise core.HarnessError("result files %r for %d batches"
                                    % (rfs, env.B))
        if fl == "garbage":
            with open(os.path.join(d, rfs[0]), "wb") as fh:
                fh.write(b"\x80\x04garbage")
        elif fl == "shortres":
            # a readable result holding fewer entries than its batch (the
            # other thing check_bad exists for); which batch rotates
            import pickle

            which = (0, -1, len(rfs) // 2)[
                ((case["clean_up"] is True) + 2 * (case["clean_up"] is None)
                 + case["wait"]) % 3]
            p_ = os.path.join(d, rfs[which])
            with open(p_, "rb") as fh:
                good = pickle.load(fh)
            with open(p_, "wb") as fh:
                pickle.dump(tuple(good)[:-1], fh)
        else:
            # a readable result holding more entries than its batch (what
            # check_bad exists for): noticed only after everything was read
            import pickle

            # (in the last result file, or - bool results, whose very last
            # value is False - in the first one)
            p_ = os.path.join(d, rfs[0 if case["scn"] == "raw-bool" else -1])
            with open(p_, "rb") as fh:
                good = pickle.load(fh)
            # (the surplus entry is a copy of the last one, or a falsy value)
            extra = (tuple(good[-1:]), (0.0,), (None,))[
                ((case["clean_up"] is True) + 2 * (case["clean_up"] is None)
                 + case["wait"] + case["allow_incomplete"]) % 3]
            with open(p_, "wb") as fh:
                pickle.dump(tuple(good) + extra, fh)
        pre = crop_tree(d)
        try:
            res = env.reap()
            j = env.judge(res)
            if j == "exact":
                pass
            elif j == "partial" and case["allow_incomplete"]:
                vio.append((key("garbage-as-missing"),
                            "an unreadable result was silently reported as "
                            "missing"))
            else:
                vio.append((key("garbage-result"), "reap returned %s" % j))
        except Exception as e:
            after_raise(pre, e, fl)
            try:
                c = env.session()
                with core.Silence():
                    c.check_bad()
                c.grow_missing(verbosity=0)
                after_success(env.reap(), True, "retry")
            except Exception as e2:
                vio.append((key("retry-raised:" + type(e2).__name__),
                            "retry after regrowing raised %r" % e2))
        return fin(case, vio, fl)
    # ----------------------------------------------------------- wrongdesc
    if fl in ("wrongdesc", "wrongconst"):
        crop = sc.fresh_crop(d)
        runner = crop.runner
        if fl == "wrongconst":
            # the three outputs described as one vector along 't', and a
            # constant that labels 't' with two values only
            runner.var_names = "vec"
            runner.var_dims = {"vec": ["t"]}
            runner.constants = {"t": [0, 1]}
        else:
            # (more names than the function has outputs - or, three outputs,
            # one name too few)
            runner.var_names = ("out", "half") if case["scn"] == "runner3" \
                else ("out", "extra")
            runner.var_dims = None
        pre = crop_tree(d)
        try:
            env.reap(crop=crop)
            vio.append((key("no-error"),
                        "a wrong output description did not raise"))
        except Exception as e:
            after_raise(pre, e, "wrongdesc")
            try:
                after_success(env.reap(), True, "retry")
            except Exception as e2:
                vio.append((key("retry-raised:" + type(e2).__name__),
                            "retry with the right description raised %r" % e2))
        return fin(case, vio, "wrongdesc")
    # ------------------------------------------------------------ conflict
    if fl == "conflict":
        f1 = xfn.make_fn(["a", "b"], kind="num", name="f10", version=1)
        far = sc.farmer(d)
        far.fn = f1
        far.harvest_combos({"a": [2], "b": [4, 5]}, verbosity=0, overwrite=True)
        pre = crop_tree(d)
        try:
            env.reap()
            vio.append((key("no-error"), "conflicting data merged silently"))
        except Exception as e:
            after_raise(pre, e, "conflict")
            try:
                res = env.reap(overwrite=True)
                if env.judge(res) != "exact":
                    vio.append((key("retry-result"), "retry returned %s"
                                % env.judge(res)))
                got = sc.load_data(d)
                want = dict(sc.earlier_cells())
                want.update(sc.new_cells())
                if got != want:
                    vio.append((key("retry-data"), "after overwrite=True the "
                                "data file is not earlier + new"))
                exists = os.path.exists(os.path.join(d, CROPDIR))
                if exists != expect_exists:
                    vio.append((key("retry-dir"), "crop directory %s" % (
                        "exists" if exists else "is gone")))
            except Exception as e2:
                vio.append((key("retry-raised:" + type(e2).__name__),
                            "retry with overwrite=True raised %r" % e2))
        return fin(case, vio, "conflict")
    # --------------------------------------------------------------- fault
    if fl == "fault":
        base = fsseam.snapshot(d)
        with fsseam.Seam(d, detect_opaque=True) as seam:
            env.reap()
        trace = list(seam.trace)
        log = seam.log
        # delivery before deletion
        if sc.kind in ("harvester", "sampler"):
            dels = [n for n, op in enumerate(log)
                    if op["path"].startswith(CROPDIR)
                    and op["op"] in ("unlink", "rmdir")]
            data = [n for n, op in enumerate(log)
                    if not op["path"].startswith(CROPDIR)]
            if dels and data and min(dels) < max(data):
                vio.append((key("delete-before-delivery"),
                            "crop files are deleted before the data file is "
                            "complete"))
        nfault = 0
        KINDS = ("open", "read", "write", "close", "rename", "truncate")
        elig = [t for t in trace if t[0] in KINDS]
        for k, t in enumerate(elig):
            nfault += 1
            fsseam.restore(d, base)
            env.live = None
            pre = crop_tree(d)
            s2 = fsseam.Seam(d, mode="fault", fault_at=k, fault_kinds=KINDS)
            try:
                with s2:
                    res = env.reap()
                if s2.faulted is None:
                    raise core.HarnessError(
                        "fault position %d not reached in %r" % (k, case))
                # the error was swallowed: the outcome must still be right,
                # including what was delivered to disk
                j = env.judge(res)
                if j != "exact" and not (j == "partial"
                                         and case["state"] == "missing"):
                    vio.append((key("fault-swallowed"),
                                "OSError at op %d %r was swallowed and reap "
                                "returned %s" % (k, t[:2], j)))
                if case["state"] == "complete" and sc.kind in (
                        "harvester", "sampler"):
                    dj = sc.judge_data(d, env.earlier_rows)
                    if dj:
                        vio.append((key("fault-swallowed-data:" + dj),
                                    "OSError at op %d %r was swallowed: reap "
                                    "returned normally but the data file is: "
                                    "%s (crop directory %s)" % (
                                        k, t[:2], dj, "kept" if os.path.exists(
                                            os.path.join(d, CROPDIR))
                                        else "deleted")))
                continue
            except core.HarnessError:
                raise
            except Exception as e:
                if s2.faulted != tuple(t[:2]):
                    raise core.HarnessError(
                        "fault %d hit %r, recorded %r" % (k, s2.faulted, t[:2]))
                now = crop_tree(d)
                if now != pre:
                    diff = sorted(x for x in set(pre) | set(now)
                                  if pre.get(x, 0) != now.get(x, 0))
                    vio.append((key("fault-crop-changed"),
                                "OSError at op %d %r: reap raised %s but crop "
                                "files changed: %r" % (
                                    k, t[:2], type(e).__name__, diff[:3])))
                    continue
            try:
                res = env.reap()
                j = env.judge(res)
                if j != "exact" and not (j == "partial"
                                         and case["state"] == "missing"):
                    vio.append((key("fault-retry-result"),
                                "after OSError at op %d %r the retry returned "
                                "%s" % (k, t[:2], j)))
                if case["state"] == "complete" and sc.kind in (
                        "harvester", "sampler"):
                    dj = sc.judge_data(d, env.earlier_rows)
                    if dj:
                        vio.append((key("fault-retry-data:" + dj),
                                    "after OSError at op %d %r the retry left "
                                    "the data file: %s" % (k, t[:2], dj)))
            except Exception as e2:
                vio.append((key("fault-retry-raised:" + type(e2).__name__),
                            "after OSError at op %d %r the retry raised %r"
                            % (k, t[:2], e2)))
        return fin(case, vio, "fault", counts={"faults_injected": nfault})
    raise core.HarnessError("unknown failure %r" % fl)


def fin(case, vio, oc, counts=None):
    return {"nontrivial": case["failure"] != "none",
            "outcome": "%s:%s" % (oc, "ok" if not vio else "VIOLATION"),
            "violations": vio, "counts": counts or {}}
