"""C05 - the harvested dataset is the faithful merge of everything ever
harvested.

Explicit-state BFS (xv.histbfs) over histories of harvest_combos /
harvest_cases / add_ds / save_merge_ds / expand_dims / drop_sel / new
session, with a two-dict reference model (memory, disk).
"""
import os
import itertools

from xv import core, histbfs, cmp, fn as xfn

ID = "C05"
LEVEL = "model_checking"
RULE = (
    "BFS over operation histories on a real Harvester; universe a in "
    "{1,2,3}, b in {10,20}, two function versions (so overlapping harvests "
    "agree or conflict); operations x overwrite policy x sync; data name "
    "with / without extension x engine; state = (decoded disk, decoded "
    "memory, expanded flag); non-trivial = distinct reachable states"
)
ASSUMPTIONS = [
    "reference model: two dicts {cell: value} (memory, disk) plus coordinate "
    "extents; a synced add first replaces memory by disk (documented 'load "
    "the disk dataset before merging'), then applies the policy; a "
    "conflicting default-policy add must raise and leave disk unchanged",
    "points only ever added with sync=False live in memory only and are "
    "replaced by the disk content at the next synced add (documented); the "
    "model reproduces that instead of flagging it",
    "memory is observed through the public full_ds property",
    "the disk is only ever written through the library (sessions are "
    "sequential)",
]

A, Bv = [1, 2, 3], [10, 20]
REGIONS = [([1], [10]), ([1, 2], [10, 20]), ([2, 3], [20]), ([3], [10, 20]),
           # (a fractional coordinate value joining integer ones)
           ([1.5, 3], [10]),
           ([2], [10]), ([1, 3], [10]), ([1, 2, 3], [10, 20]), ([3], [20]),
           ([1], [20])]
ELLB = [[20], [10, 20]]
CASESETS = [[(1, 10), (2, 20)], [(1, 20), (3, 10)], [(2, 10)], [(3, 20), (1, 10)]]


def configs(tier):
    cs = [{"name": "data", "engine": "joblib"},
          {"name": "data.dmp", "engine": "joblib"},
          {"name": "data", "engine": "h5netcdf"}]
    if tier == "thorough":
        cs.append({"name": "data.h5", "engine": "h5netcdf"})
    for c in cs:
        if tier == "quick":
            c["depth"] = 3 if c["engine"] == "joblib" else 2
            c["max_states"] = 200 if c["engine"] == "joblib" else 25
        else:
            c["depth"] = 8 if c["engine"] == "joblib" else 3
            c["max_states"] = 1500 if c["engine"] == "joblib" else 150
    # integer-valued results (a cell that was never harvested cannot be an
    # integer: the grid turns to floats as soon as it has gaps)
    cs.append({"name": "ints", "engine": "joblib", "kind": "int",
               "depth": 3 if tier == "quick" else 4,
               "max_states": 40 if tier == "quick" else 400})
    if tier == "thorough":
        cs.append({"name": "ints", "engine": "h5netcdf", "kind": "int",
                   "depth": 3, "max_states": 100})
    # harvesters that keep their full dataset lazily (dask-backed, reading
    # from the file on demand)
    cs.append({"name": "lazy", "engine": "h5netcdf", "chunks": 1,
               "depth": 2 if tier == "quick" else 3,
               "max_states": 12 if tier == "quick" else 150})
    # ... starting from a file that is already there and loaded lazily
    cs.append({"name": "lazypre", "engine": "h5netcdf", "chunks": 1,
               "preload": True, "depth": 2 if tier == "quick" else 3,
               "max_states": 60 if tier == "quick" else 250})
    return cs


def alphabet(tier, expanded, extent_a, extent_b=()):
    nreg = 5 if tier == "quick" else len(REGIONS)
    ev = []
    cs = [[0]] if expanded else [None]
    if expanded and tier == "thorough":
        cs.append([6])
    for r in range(nreg):
        for ver in (0, 1):
            for pol in (None, True, False):
                for c in cs:
                    ev.append(["hc", r, ver, pol, True, c])
        ev.append(["hc", r, 0, None, False, cs[0]])
        ev.append(["hc", r, 1, True, False, cs[0]])
    ncs = 2 if tier == "quick" else len(CASESETS)
    if not expanded:
        for k in range(ncs):
            for ver in (0, 1):
                for pol in (None, True, False):
                    ev.append(["hcases", k, ver, pol])
        for r in range(min(nreg, 3)):
            ev.append(["add_ds", r, 1, True])
            ev.append(["add_ds", r, 0, None])
            for pol in (None, True, False):
                # (not while a lazily loading harvester holds the file open:
                # HDF5 refuses a second writer)
                if not PRELOADED[0]:
                    ev.append(["save_merge", r, (r + 1) % 2, pol])
        if extent_a:  # (nothing to expand in an empty harvester)
            ev.append(["expand"])
            # `...` = every value of that coordinate harvested so far; the
            # caller re-uses one and the same combos dict every time
            for k in range(len(ELLB)):
                ev.append(["hell", k, 0, None])
                ev.append(["hell", k, 1, True])
            # the whole dataset replaced by one without any variable
            ev.append(["replace_empty"])
            # (the same dict before and after the dataset grew along `a`)
            for r in (2, 3):
                ev.append(["seq", [["hell", 0, 0, None],
                                   ["hc", r, 0, None, True, None],
                                   ["hell", 0, 0, None]]])
    for x in sorted(extent_a)[:2 if tier == "quick" else 3]:
        ev.append(["drop", x])
    # the dimension that exists already "added" again under another label:
    # refused or not, what was harvested stays where it is
    if expanded and extent_a:
        ev.append(["expand_again", 6])
    # labels along two dimensions dropped by one call
    if extent_a and extent_b:
        ev.append(["drop2", sorted(extent_a)[0], sorted(extent_b)[-1]])
    ev.append(["new_session"])
    # the harvester object copied (as sowing a crop does with its farmer) or
    # sent through pickle: the copy holds what the original held, including
    # points that were harvested with sync=False
    if not PRELOADED[0]:
        ev.append(["copied", "deepcopy"])
        ev.append(["copied", "pickle"])
    # a session that names the other engine for the same (explicit) file
    # name: it cannot read the data and must not touch it
    ev.append(["foreign"])
    # a second, long-lived Harvester on the same data name (sessions
    # alternate, they do not overlap)
    for r in range(min(nreg, 3)):
        if not PRELOADED[0]:
            ev.append(["hc2", r, 0, None, cs[0]])
            ev.append(["hc2", r, 1, True, cs[0]])
    return ev


class Model:
    def __init__(self):
        self.mem = None  # None = nothing in memory
        self.disk = None  # None = no file
        self.expanded = False

    @staticmethod
    def merge(old, new, pol):
        """-> merged dict or raises ValueError on conflict"""
        if old is None:
            return dict(new)
        out = dict(old)
        for k, v in new.items():
            if k in out and out[k] != v:
                if pol is None:
                    raise ValueError("conflict")
                if pol is True:
                    out[k] = v
            else:
                out[k] = v
        return out


def cell(a, b, c=None):
    k = [("a", a), ("b", b)]
    if c is not None:
        k.append(("c", c))
    return ("out", tuple(sorted(k)))


class World:
    def __init__(self, cfg, d):
        import xyzpy as xyz

        self.cfg, self.d = cfg, d
        # (c defaults to the label the data is later expanded to: 0, a label
        # that is false as a Python value)
        self.fs = [xfn.make_fn(["a", "b", "c"], kind=cfg.get("kind", "num"),
                               name="f05",
                               version=v, defaults={"c": 0}) for v in (0, 1)]
        self.path = os.path.join(d, cfg["name"])
        self.model = Model()
        self.h = self.new_harvester()
        self.h2 = self.new_harvester()
        self.ell = [{"a": ..., "b": list(ELLB[0])},
                    {"b": list(ELLB[1]), "a": ...}]
        self.mem2 = None  # reference model of the second harvester's memory
        self.last = "h"

    def new_harvester(self, version=0):
        import xyzpy as xyz

        # (attributes: a bool and None - rewritten as strings in a netCDF
        # file - and one that differs between the two function versions)
        r = xyz.Runner(self.fs[version], var_names="out",
                       attrs={"flag": True, "nothing": None,
                              "tag": "v%d" % version})
        return xyz.Harvester(r, data_name=self.path, engine=self.cfg["engine"],
                             chunks=self.cfg.get("chunks"))

    def val(self, ver, a, b, c):
        return xfn.expected(self.cfg.get("kind", "num"),
                            dict(a=a, b=b, c=0 if c is None else c), ver)

    def new_cells(self, pts, ver, c):
        exp = self.model.expanded
        return {cell(a, b, (c if exp else None)): self.val(ver, a, b, c)
                for a, b in pts}

    # ---- events ---------------------------------------------------------- #
    def apply(self, ev):
        """-> list of (symptom, what)"""
        import xyzpy as xyz

        m = self.model
        kind = ev[0]
        vio = []
        if kind == "seq":
            for sub in ev[1]:
                vio += self.apply(sub)
            return vio
        self.last = "h2" if kind == "hc2" else "h"
        if kind == "hc2":
            _, r, ver, pol, c = ev
            ra, rb = REGIONS[r]
            pts = list(itertools.product(ra, rb))
            cc = c[0] if c else None
            new = self.new_cells(pts, ver, cc)
            mem0 = dict(m.disk) if m.disk is not None else self.mem2
            try:
                merged = Model.merge(mem0, new, pol)
                want_raise = False
            except ValueError:
                merged, want_raise = None, True
            self.h2.runner.fn = self.fs[ver]
            combos = {"a": ra, "b": rb}
            if cc is not None:
                combos["c"] = [cc]
            try:
                self.h2.harvest_combos(combos, overwrite=pol, verbosity=0)
                raised = None
            except Exception as e:
                raised = e
            if want_raise and raised is None:
                vio.append(("conflict-merged", "conflicting data under the "
                            "default policy did not raise"))
            if (not want_raise) and raised is not None:
                vio.append(("raised:" + type(raised).__name__,
                            "%r raised %r" % (ev, raised)))
            self.mem2 = mem0 if (want_raise or raised is not None) else merged
            if not want_raise and raised is None:
                m.disk = dict(merged)
            return vio
        if kind in ("hc", "hcases", "add_ds", "hell"):
            if kind == "hell":
                _, k, ver, pol = ev
                view = m.mem if m.mem is not None else (m.disk or {})
                ra = sorted({dict(c_[1])["a"] for c_ in view})
                rb = ELLB[k]
                pts, sync, cc = list(itertools.product(ra, rb)), True, None
            elif kind == "hc":
                _, r, ver, pol, sync, c = ev
                ra, rb = REGIONS[r]
                pts = list(itertools.product(ra, rb))
                cc = c[0] if c else None
            elif kind == "hcases":
                _, k, ver, pol = ev
                pts, sync, cc = CASESETS[k], True, None
            else:
                _, r, ver, pol = ev
                ra, rb = REGIONS[r]
                pts, sync, cc = list(itertools.product(ra, rb)), True, None
            new = self.new_cells(pts, ver, cc)
            # --- reference model
            mem0 = m.mem
            if sync and m.disk is not None:
                mem0 = dict(m.disk)
            try:
                merged = Model.merge(mem0, new, pol)
                want_raise = False
            except ValueError:
                merged, want_raise = None, True
            # --- real call
            self.h.runner.fn = self.fs[ver]
            try:
                if kind == "hc":
                    combos = {"a": ra, "b": rb}
                    if cc is not None:
                        combos["c"] = [cc]
                    self.h.harvest_combos(combos, sync=sync, overwrite=pol,
                                          verbosity=0)
                elif kind == "hell":
                    self.h.harvest_combos(self.ell[k], overwrite=pol,
                                          verbosity=0)
                elif kind == "hcases":
                    if k % 2:
                        # (dict cases whose key order varies from case to
                        # case)
                        dc = [dict([("a", a_), ("b", b_)][::(1 if i_ % 2
                                                              else -1)])
                              for i_, (a_, b_) in enumerate(pts)]
                        self.h.harvest_cases(dc, sync=True, overwrite=pol,
                                             verbosity=0)
                    else:
                        self.h.harvest_cases(pts, fn_args=["a", "b"],
                                             sync=True, overwrite=pol,
                                             verbosity=0)
                else:
                    ds = xyz.Runner(self.fs[ver], var_names="out").run_combos(
                        {"a": ra, "b": rb}, verbosity=0)
                    self.h.add_ds(ds, overwrite=pol)
                    # (the caller goes on using its own dataset: what was
                    # harvested does not follow)
                    ds["out"].values[...] = -777.0
                raised = None
            except Exception as e:
                raised = e
            if want_raise and raised is None:
                vio.append(("conflict-merged", "conflicting data under the "
                            "default policy did not raise"))
            if (not want_raise) and raised is not None:
                vio.append(("raised:" + type(raised).__name__,
                            "%r raised %r" % (ev, raised)))
            if want_raise:
                m.mem = mem0  # (memory was reloaded from disk before the merge)
            elif raised is None:
                m.mem = merged
                if sync:
                    m.disk = dict(merged)
            else:
                m.mem = mem0
        elif kind == "save_merge":
            _, r, ver, pol = ev
            ra, rb = REGIONS[r]
            pts = list(itertools.product(ra, rb))
            new = self.new_cells(pts, ver, None)
            ds = xyz.Runner(self.fs[ver], var_names="out").run_combos(
                {"a": ra, "b": rb}, verbosity=0)
            try:
                merged = Model.merge(m.disk, new, pol)
                want_raise = False
            except ValueError:
                merged, want_raise = None, True
            try:
                xyz.save_merge_ds(ds, self.path, overwrite=pol,
                                  engine=self.cfg["engine"])
                raised = None
            except Exception as e:
                raised = e
            if want_raise != (raised is not None):
                vio.append(("save_merge-raise-mismatch",
                            "save_merge_ds %r: expected raise=%r, got %r"
                            % (ev, want_raise, raised)))
            if raised is None and merged is not None:
                m.disk = merged
        elif kind == "replace_empty":
            import xarray as xr

            try:
                self.h.save_full_ds(xr.Dataset())
            except Exception as e:
                vio.append(("raised:" + type(e).__name__,
                            "save_full_ds(empty dataset) raised %r" % e))
                return vio
            m.mem, m.disk = {}, {}
        elif kind == "expand":
            try:
                self.h.expand_dims("c", 0)
            except Exception as e:
                vio.append(("raised:" + type(e).__name__,
                            "expand_dims raised %r" % e))
                return vio

            def ex(dct):
                return None if dct is None else {
                    (k[0], tuple(sorted(k[1] + (("c", 0),)))): v
                    for k, v in dct.items()}
            src = m.mem if m.mem is not None else m.disk
            m.mem = ex(src)
            m.disk = ex(src)
            m.expanded = True
        elif kind == "expand_again":
            try:
                self.h.expand_dims("c", ev[1])
            except Exception:
                pass
            if m.mem is None and m.disk is not None:
                m.mem = dict(m.disk)
        elif kind == "drop":
            x = ev[1]
            try:
                # (labels as keyword or, alternately, as a positional dict)
                if len(m.disk or {}) % 2:
                    self.h.drop_sel({"a": x})
                else:
                    self.h.drop_sel(a=x)
            except Exception as e:
                vio.append(("raised:" + type(e).__name__,
                            "drop_sel(a=%r) raised %r" % (x, e)))
                return vio
            src = m.mem if m.mem is not None else m.disk
            new = {k: v for k, v in src.items() if ("a", x) not in k[1]}
            m.mem = new
            m.disk = dict(new)
        elif kind == "drop2":
            x, yb = ev[1], ev[2]
            try:
                if len(m.disk or {}) % 2:
                    self.h.drop_sel({"b": yb, "a": x})
                else:
                    self.h.drop_sel(b=yb, a=x)
            except Exception as e:
                vio.append(("raised:" + type(e).__name__,
                            "drop_sel(a=%r, b=%r) raised %r" % (x, yb, e)))
                return vio
            src = m.mem if m.mem is not None else m.disk
            new = {k: v for k, v in src.items()
                   if ("a", x) not in k[1] and ("b", yb) not in k[1]}
            m.mem = new
            m.disk = dict(new)
        elif kind == "new_session":
            self.h = self.new_harvester()
            m.mem = None
        elif kind == "copied":
            import copy

            if ev[1] == "deepcopy":
                self.h = copy.deepcopy(self.h)
            else:
                import cloudpickle

                self.h = cloudpickle.loads(cloudpickle.dumps(self.h))
        elif kind == "foreign":
            if m.disk is None or "." not in self.cfg["name"]:
                return vio
            other = {"joblib": "h5netcdf", "h5netcdf": "joblib"}[
                self.cfg["engine"]]
            with open(self.path, "rb") as fh:
                before = fh.read()
            hf = xyz.Harvester(xyz.Runner(self.fs[1], var_names="out"),
                               data_name=self.path, engine=other)
            try:
                hf.harvest_combos({"a": [1, 7], "b": [10]}, verbosity=0)
                raised = False
            except Exception:
                raised = True
            with open(self.path, "rb") as fh:
                after = fh.read()
            if after != before or not raised:
                vio.append(("foreign-session", "a Harvester naming engine %r "
                            "for the %s file %s: the file %s" % (
                                other, self.cfg["engine"],
                                "raised" if raised else "harvested as if "
                                "nothing had been stored",
                                "was rewritten" if after != before
                                else "is unchanged")))
                # (put the data back so that later observations are about
                # later steps)
                with open(self.path, "wb") as fh:
                    fh.write(before)
        else:
            raise core.HarnessError("unknown event %r" % (ev,))
        return vio

    # ---- observation -------------------------------------------------------
    def observe(self):
        """-> (violations, canonical key)"""
        import xyzpy as xyz

        m = self.model
        vio = []
        eng = self.cfg["engine"]
        ext = {"joblib": ".dmp", "h5netcdf": ".h5"}[eng]
        fname = self.path if ext in self.cfg["name"] else self.path + ext
        # disk
        listing = sorted(os.listdir(self.d))
        if m.disk is None:
            disk = None
            if listing:
                vio.append(("stray-file", "no data expected on disk but the "
                            "directory holds %r" % listing))
        else:
            want_list = [os.path.basename(fname)]
            stray = [x for x in listing if x not in want_list
                     and ".tmp" not in x]
            if stray or os.path.basename(fname) not in listing:
                vio.append(("file-name", "expected the data in %r, directory "
                            "holds %r" % (want_list, listing)))
            try:
                dds = xyz.load_ds(self.path, engine=eng)
                if m.expanded and "c" not in dds.coords:
                    vio.append(("dimension-unlabelled", "the data on disk has "
                                "a dimension 'c' without labels"))
                disk = cmp.ds_to_dict(dds)
            except Exception as e:
                vio.append(("disk-unreadable", "load_ds raised %r" % e))
                disk = "?"
        if disk != "?" and disk != m.disk:
            vio.append(("disk-vs-model", self.explain(disk, m.disk, "disk")))
        # memory, through the public property (a fresh session loads lazily)
        actor = self.h2 if self.last == "h2" else self.h
        try:
            fd = actor.full_ds
            if fd is not None and m.expanded and "c" in fd.dims and \
                    "c" not in fd.coords:
                vio.append(("dimension-unlabelled", "full_ds has a dimension "
                            "'c' without labels"))
            mem = None if fd is None else cmp.ds_to_dict(fd)
        except Exception as e:
            vio.append(("memory-unreadable", "full_ds raised %r" % e))
            mem = "?"
        if self.last == "h2":
            want_mem = self.mem2 if self.mem2 is not None else m.disk
            if self.mem2 is None and m.disk is not None:
                self.mem2 = dict(m.disk)
        else:
            want_mem = m.mem if m.mem is not None else m.disk
            if m.mem is None and m.disk is not None:
                m.mem = dict(m.disk)
        if mem != "?" and mem != want_mem:
            vio.append(("memory-vs-model", self.explain(mem, want_mem, "memory")))
        key = core.jhash([sorted(map(repr, (m.disk or {}).items())),
                          None if m.mem is None else
                          sorted(map(repr, m.mem.items())),
                          None if self.mem2 is None else
                          sorted(map(repr, self.mem2.items())),
                          m.disk is None, m.expanded])
        return vio, key

    @staticmethod
    def explain(got, want, where):
        if got is None or want is None:
            return "%s: %s, reference model: %s" % (
                where, "nothing" if got is None else "%d cells" % len(got),
                "nothing" if want is None else "%d cells" % len(want))
        lost = [k for k in want if k not in got]
        extra = [k for k in got if k not in want]
        diff = [k for k in want if k in got and got[k] != want[k]]
        return "%s differs from the reference model: lost %r, extra %r, " \
            "changed %r" % (where, lost[:2], extra[:2], diff[:2])


PRELOAD = [["hc", 7, 0, None, True, None], ["new_session"]]
PRELOADED = [False]


def build(cfg, hist, d):
    core.fresh_dir(os.path.basename(d))
    w = World(cfg, d)
    if cfg.get("preload"):
        # the file exists already (a whole grid, written by an earlier
        # session); the harvester under test starts by loading it
        for ev in PRELOAD:
            w.apply(ev)
            w.observe()
    for ev in hist:
        w.apply(ev)
        w.observe()
    return w


def expand(task):
    cfg, hist = task
    tier = os.environ.get("XV_TIER", "quick")
    d = os.path.join(core.scratch_root(), "c05")
    w = build(cfg, hist, d)
    out = {"hist": hist, "succ": []}
    if not hist:
        out["init_key"] = w.observe()[1]
    src = w.model.mem if w.model.mem is not None else (w.model.disk or {})
    extent_a = {dict(k[1])["a"] for k in src}
    # (a lazily loading harvester keeps the file open and sees what is in it:
    # no second writer - another Harvester object, save_merge_ds - while it
    # lives; HDF5 refuses one anyway)
    PRELOADED[0] = bool(cfg.get("chunks"))
    extent_b = {dict(k[1])["b"] for k in src}
    events = alphabet(tier, w.model.expanded, extent_a, extent_b)
    for n, ev in enumerate(events):
        if n:
            w = build(cfg, hist, d)
        tag = "C05|%s|%s|%s" % (cfg["engine"], "ext" if "." in cfg["name"]
                                else "noext", ev[0])
        try:
            v1 = w.apply(ev)
            v2, key = w.observe()
        except core.HarnessError:
            raise
        except Exception as e:
            v1, v2, key = [("harness-raised:" + type(e).__name__, repr(e))], \
                [], None
        vio = [("%s|%s" % (tag, s), "after %r + %r: %s" % (hist, ev, what))
               for s, what in v1 + v2]
        out["succ"].append((ev, key, vio, ev[0]))
    return out


def two_outputs(task):
    """a harvester of a function with two outputs: one of them is harvested
    again separately and handed over as a DataArray (every permutation of
    the steps below up to length 3 - a small search of its own)"""
    import numpy as np
    import xarray as xr
    import xyzpy as xyz

    eng, name = task["engine"], task["name"]
    d = core.fresh_dir("c05two")
    path = os.path.join(d, name)
    f = xfn.make_fn(["a"], kind="tuple2", name="f05t")
    vio = []
    A = [1, 2, 3]
    model = {}     # (var, a) -> value

    def val(a, i):
        return xfn.expected("tuple2", {"a": a})[i]

    def new_h():
        return xyz.Harvester(xyz.Runner(f, var_names=["x", "y"]),
                             data_name=path, engine=eng)

    steps = task["steps"]
    h = new_h()
    for st in steps:
        try:
            if st == "harvest":
                h.harvest_combos({"a": A[:2]}, verbosity=0, overwrite=True)
                for a in A[:2]:
                    model[("x", a)] = val(a, 0)
                    model[("y", a)] = val(a, 1)
            elif st in ("da-y", "da-x"):
                v = st[-1]
                da = xr.DataArray([-1.0, -2.0], dims=("a",),
                                  coords={"a": A[1:]}, name=v)
                h.add_ds(da, overwrite=True)
                for a, w_ in zip(A[1:], (-1.0, -2.0)):
                    model[(v, a)] = w_
            elif st == "new":
                h = new_h()
        except Exception as e:
            vio.append(("C05|%s|two-outputs|raised:%s" % (eng, type(e).__name__),
                        "steps %r: %r" % (steps, e)))
            break
        for where, ds in (("memory", h.full_ds), ("disk", xyz.load_ds(
                path, engine=eng) if model else None)):
            if ds is None:
                continue
            got = {(v_, a_): float(ds[v_].sel(a=a_))
                   for v_ in ds.data_vars for a_ in ds["a"].values.tolist()
                   if not np.isnan(float(ds[v_].sel(a=a_)))}
            if got != model:
                vio.append(("C05|%s|two-outputs|%s" % (eng, where),
                            "after %r: %s holds %r, expected %r"
                            % (steps[:steps.index(st) + 1], where, got,
                               model)))
                return {"vio": vio, "task": task}
    return {"vio": vio, "task": task}


def run(ctx):
    os.environ["XV_TIER"] = ctx.tier
    states = transitions = 0
    per = {}
    alphabet2 = ["harvest", "da-y", "da-x", "new"]
    tasks2 = [{"engine": e, "name": n, "steps": list(p)}
              for e, n in (("joblib", "two"), ("h5netcdf", "two.h5"))
              for k in (1, 2, 3) for p in itertools.product(alphabet2, repeat=k)]
    n2 = 0
    for out in ctx.map_unordered("two_outputs", tasks2):
        n2 += 1
        for k_, w_ in out["vio"]:
            ctx.violation(k_, w_, {"two": out["task"]})
    ctx.coverage_extra["two_output_histories"] = n2
    for cfg in configs(ctx.tier):
        r = histbfs.bfs(ctx, "expand", cfg, cfg["depth"],
                        max_states=cfg["max_states"],
                        label="%s/%s" % (cfg["name"], cfg["engine"]))
        states += r["states"]
        transitions += r["transitions"]
        per["%s [%s]" % (cfg["name"], cfg["engine"])] = r
        if not r["fixpoint"]:
            ctx.exhaustive = False
    ctx.coverage_extra.update({
        "states": states, "transitions": transitions,
        "traces_validated_against_impl": transitions,
        "per_configuration": per,
        "explanation": "the real Harvester is the transition relation; the "
        "reference model (two dicts) is compared after every transition; "
        "exhaustive=false means the depth / state bound stopped the search "
        "before the fix-point (bounds in per_configuration)",
    })


def replay(case):
    if "two" in case:
        return two_outputs(case["two"])["vio"]
    d = os.path.join(core.scratch_root(), "c05")
    cfg, hist = case["cfg"], case["history"]
    w = build(cfg, hist[:-1], d)
    tag = "C05|%s|%s|%s" % (cfg["engine"], "ext" if "." in cfg["name"]
                            else "noext", hist[-1][0])
    v1 = w.apply(hist[-1])
    v2, _ = w.observe()
    return [("%s|%s" % (tag, s), what) for s, what in v1 + v2]
