"""C01 - a grid sweep evaluates every combination exactly once, in its own
slot, whatever the execution strategy and completion order."""
import os
import sys
import itertools
import multiprocessing.pool
from concurrent.futures import Future

from xv import core, cmp, fn as xfn

ID = "C01"
LEVEL = "exploration"
RULE = (
    "grids of 1-5 arguments x 1-4 values (unsorted int / float / str pools, "
    "all type vectors for <= 3 arguments), dict / tuple / bare-pair spelling, "
    "0-2 constants, result kinds x split x flat, strategies {sequential, "
    "shuffle True / int seeds, controlled submit-style executor, controlled "
    "apply_async-style executor, controlled multiprocessing.pool.Pool "
    "subclass} with every completion order of the futures for <= 4 (quick) / "
    "5 (thorough) settings and FIFO, reversal and every order within two "
    "adjacent transpositions beyond; plus grids of 81-512 (thorough 1024) "
    "settings under every strategy with FIFO / reversed / rotated / "
    "interleaved completion; non-trivial = >= 2 arguments and >= 4 "
    "settings"
)
ASSUMPTIONS = [
    "controlled executors hand out genuine concurrent.futures.Future objects "
    "(or get()-style results) and complete them in the explorer's order at "
    "the moment a result is first demanded",
    "real pools (ThreadPoolExecutor, ThreadPool, ProcessPoolExecutor, "
    "multiprocessing.Pool, loky via parallel / num_workers) are exercised on "
    "a few grids as a conformance pass in the main process",
]

# (floats: one that needs all 17 digits and one far below 1e-12 among them)
POOLS = {"i": [3, 1, 2, 0], "f": [0.5, 0.1 + 0.2, 2.5e-13, 1000.0],
         "s": ["q", "p", "zz", "A"],
         # one argument whose values are of several types
         "m": [3, 0.5, "zz", 2]}
# values that compare equal to the int pool but have another type
TWIN = {3: 3.0, 1: True, 2: 2.0, 0: False}
ARGS = ["c", "a", "e", "b", "d"]  # not alphabetical


# --------------------------------------------------------------------------- #
# controlled executors


class Controller:
    def __init__(self, order):
        self.order = list(order)  # completion order (indices of submission)
        self.tasks = []  # (future-like, fn, args, kwargs)
        self.pos = 0

    def add(self, fut, fn, args, kw):
        self.tasks.append((fut, fn, args, kw))
        return fut

    def drive_until(self, fut):
        while not fut._xv_done:
            # the next task of the scripted completion order that exists and
            # has not run yet; if the script has nothing more to offer (the
            # library submitted something the script does not know about),
            # the awaited task itself
            i = None
            while self.pos < len(self.order):
                j = self.order[self.pos]
                self.pos += 1
                if j < len(self.tasks) and not self.tasks[j][0]._xv_done:
                    i = j
                    break
            if i is None:
                i = [t[0] for t in self.tasks].index(fut)
            f, fn, args, kw = self.tasks[i]
            try:
                f._xv_set(fn(*args, **kw), None)
            except BaseException as e:
                f._xv_set(None, e)


class LazyFuture(Future):
    def __init__(self, ctrl):
        super().__init__()
        self._ctrl = ctrl
        self._xv_done = False

    def _xv_set(self, val, exc):
        self._xv_done = True
        if exc is None:
            self.set_result(val)
        else:
            self.set_exception(exc)

    def result(self, timeout=None):
        self._ctrl.drive_until(self)
        return super().result(timeout)


class LazyAsync:
    """AsyncResult-like: only ``get``"""

    def __init__(self, ctrl):
        self._ctrl = ctrl
        self._xv_done = False

    def _xv_set(self, val, exc):
        self._xv_done, self._val, self._exc = True, val, exc

    def get(self, timeout=None):
        self._ctrl.drive_until(self)
        if self._exc is not None:
            raise self._exc
        return self._val


class SubmitExecutor:
    """concurrent.futures style: submit(fn, *args, **kwargs), shutdown()"""

    def __init__(self, order):
        self.ctrl = Controller(order)
        self.closed = False

    def submit(self, fn, /, *args, **kw):
        if self.closed:
            raise RuntimeError("cannot schedule new futures after shutdown")
        return self.ctrl.add(LazyFuture(self.ctrl), fn, args, kw)

    def shutdown(self, wait=True, cancel_futures=False):
        # (the caller's to call - as with a real pool, nothing can be
        # submitted afterwards)
        self.closed = True


class AsyncExecutor:
    """ipyparallel-view style: apply_async(fn, *args, **kwargs)"""

    def __init__(self, order):
        self.ctrl = Controller(order)

    def apply_async(self, fn, /, *args, **kw):
        return self.ctrl.add(LazyAsync(self.ctrl), fn, args, kw)


class FakePool(multiprocessing.pool.Pool):
    """a multiprocessing.pool.Pool subclass: apply_async(fn, args, kwds)"""

    def __init__(self, order):  # no processes are started
        self.ctrl = Controller(order)

    def apply_async(self, fn, args=(), kwds=None, callback=None,
                    error_callback=None):
        return self.ctrl.add(LazyAsync(self.ctrl), fn, args, kwds or {})

    def __del__(self):
        pass


def completion_orders(n, full_upto):
    """every permutation up to ``full_upto`` futures; beyond: FIFO, reversal,
    a rotation and the orders within one / two adjacent transpositions of
    FIFO (all of them up to 12 futures, an even spread of 40 beyond)"""
    if n <= full_upto:
        return [list(p) for p in itertools.permutations(range(n))]
    base = list(range(n))
    out = {tuple(base), tuple(base[::-1]), tuple(base[n // 2:] + base[:n // 2])}
    for i in range(n - 1):
        a = base[:]
        a[i], a[i + 1] = a[i + 1], a[i]
        out.add(tuple(a))
        if n <= 12:
            for j in range(n - 1):
                b = a[:]
                b[j], b[j + 1] = b[j + 1], b[j]
                out.add(tuple(b))
    out = sorted(out)
    if len(out) > 40:
        step = len(out) / 40.0
        out = [out[int(k * step)] for k in range(40)] + [tuple(base[::-1])]
    return [list(o) for o in out]


# --------------------------------------------------------------------------- #


def shapes(tier):
    kmax, smax, pmax = (3, 3, 27) if tier == "quick" else (5, 4, 256)
    for k in range(1, kmax + 1):
        for shp in itertools.product(range(1, smax + 1), repeat=k):
            n = 1
            for s in shp:
                n *= s
            if n <= pmax:
                yield shp


def cases(tier, seed):
    kinds = [("num", False), ("tuple2", True), ("tuple2", False),
             ("tuple3", True), ("array", False), ("list", False),
             ("str", False), ("list1", False), ("mixtuple", False),
             # several outputs returned as an array / a list, split
             ("array", True), ("list", True)]
    j = 0
    for shp in shapes(tier):
        k = len(shp)
        n = 1
        for s in shp:
            n *= s
        if k <= 3 and (tier == "thorough" or k <= 2):
            tvecs = list(itertools.product("ifs", repeat=k))
        else:
            tvecs = [tuple("ifs"[(i + j) % 3] for i in range(k)),
                     ("i",) * k, tuple("sfi"[(i + j) % 3] for i in range(k))]
        if tier == "quick" and len(tvecs) > 4:
            tvecs = tvecs[j % 3::3]
        for tv in tvecs:
            for (kind, split) in kinds:
                j += 1
                # (thinning and the secondary dimensions go by a hash of the
                # case, so that none is in lock-step with another)
                hk = [list(shp), "".join(tv), kind, split]
                if tier == "quick" and core.pick(hk + ["thin"], 3) and \
                        kind not in ("num",):
                    continue
                flat = core.pick(hk + ["flat"], 4) == 0
                spelling = ["dict", "tuple", "pair"][
                    core.pick(hk + ["sp"], 3)] if k == 1 \
                    else ["dict", "tuple"][core.pick(hk + ["sp"], 2)]
                nconst = core.pick(hk + ["nc"], 3)
                base = {"shape": list(shp), "types": "".join(tv), "kind": kind,
                        "split": split, "flat": flat, "spelling": spelling,
                        "nconst": nconst}
                yield dict(base, strat="seq", again=(j % 2 == 0))
                if j % 2 and kind != "tstr":
                    # the values of each argument given as a tuple, a
                    # one-shot generator or a numpy array
                    yield dict(base, strat=["seq", "shuffle"][
                        core.pick(hk + ["vs"], 2)], seed=2,
                        valform=["tuple", "gen", "array"][
                            core.pick(hk + ["vf"], 3)])
                if kind == "str" and "i" in tv:
                    # the same sweep right after one over ==-equal values of
                    # other types (non-initial state of the process)
                    yield dict(base, kind="tstr", strat="seq", pre=True)
                    yield dict(base, kind="tstr", strat="submit", pre=True,
                               order=list(range(n))[::-1])
                yield dict(base, strat="shuffle", seed=True, again=(j % 2 == 1))
                yield dict(base, strat="shuffle", seed=1 + (j % 32))
                if j % 2:
                    # (a seed that is falsy)
                    yield dict(base, strat="shuffle", seed=0)
                full_upto = 4 if tier == "quick" else 5
                orders = completion_orders(n, full_upto)
                if tier == "quick" and len(orders) > 24:
                    orders = orders[:: max(1, len(orders) // 24)]
                ex = ["submit", "async", "fakepool"]
                for oi, order in enumerate(orders):
                    # (again: the caller's executor is used for a second
                    # sweep, which is the one judged)
                    yield dict(base, strat=ex[(oi + j) % 3], order=order,
                               again=core.pick(hk + [oi, "exag"], 3) == 0)
                if n <= 6:
                    for e in ex:
                        yield dict(base, strat=e,
                                   order=orders[(j + 1) % len(orders)])


    # values of several types within one argument (the function reports the
    # types it received); constants taken through **kwargs
    for mi, (shp, tv) in enumerate([((3,), "m"), ((4, 2), "mi"), ((2, 3), "sm"),
                                    ((2, 2, 3), "imf"), ((4, 4), "mm")]):
        n = 1
        for s_ in shp:
            n *= s_
        for ki, (kind, split) in enumerate([("tstr", False), ("num", False),
                                            ("tuple2", True)]):
            base = {"shape": list(shp), "types": tv, "kind": kind,
                    "split": split, "flat": (mi + ki) % 2 == 1,
                    "spelling": ["dict", "tuple"][(mi + ki) % 2],
                    "nconst": 1 + (mi + ki) % 2, "varkw": ki != 1}
            yield dict(base, strat="seq")
            yield dict(base, strat="shuffle", seed=3)
            fifo = list(range(n))
            yield dict(base, strat=["submit", "async", "fakepool"][ki],
                       order=fifo[::-1])
    # one argument swept over values that are equal (and hash alike) but of
    # different types: no grid can hold both, the sweep is refused before
    # anything runs (or, if it is accepted, every slot has to be right)
    for twin in ([3, 3.0], [1, True, 2], [2.0, 0, False]):
        for st in ("seq", "shuffle", "submit"):
            for two in (False, True):
                yield {"special": "twin", "values": twin, "strat": st,
                       "two": two}
    # a single (name, values) pair whose name has as many characters as it
    # has values (it must not be taken for a sequence of pairs)
    for name_, vals_ in (("x0", ["p", "q"]), ("x0", [3, 1]), ("abc", [1, 2, 3]),
                         ("ab", ["uv", "wx"])):
        for st in ("seq", "shuffle"):
            yield {"special": "pairname", "name": name_, "values": vals_,
                   "strat": st}
    # arguments named like the helpers' own parameters (every strategy hands
    # the settings on as keywords: the function's names are its own)
    for names in (["fn", "executor"], ["args", "kwds"], ["self", "settings"],
                  ["func", "future"], ["kws", "fn"]):
        for st in ("seq", "shuffle", "submit", "async", "fakepool", "threads"):
            yield {"special": "optname", "names": names, "strat": st}
    # the swept function raises StopIteration for one combination: it reaches
    # the caller, the sweep does not end as if it were complete
    for n in (3, 4):
        for at in range(n):
            for st in ("seq", "shuffle", "submit", "async", "fakepool"):
                for flat in (False, True):
                    yield {"special": "stopiter", "n": n, "at": at,
                           "strat": st, "flat": flat}
    # an argument with no values at all: nothing runs, the nesting is empty
    for zi, shp in enumerate([(0,), (2, 0), (0, 2), (1, 0, 2)]):
        for ki, (kind, split) in enumerate([("num", False), ("tuple2", True),
                                            ("str", False)]):
            base = {"shape": list(shp), "types": "ifs"[:len(shp)],
                    "kind": kind, "split": False, "flat": (zi + ki) % 2 == 1,
                    "spelling": ["dict", "tuple"][ki % 2], "nconst": ki % 3}
            yield dict(base, strat="seq")
            yield dict(base, strat="shuffle", seed=True)
            yield dict(base, strat=["submit", "async", "fakepool"][ki],
                       order=[])
    # grids beyond any plausible internal window / chunk size (64, 100, 128,
    # 256, 1000): every strategy, a few completion orders
    big = [(3, 3, 3, 3), (4, 4, 4, 4), (4, 4, 2, 4, 2)]
    if tier == "thorough":
        big += [(4, 4, 4, 4, 4), (4, 4, 4, 4, 3)]
    for bi, shp in enumerate(big):
        n = 1
        for s_ in shp:
            n *= s_
        for ki, (kind, split) in enumerate([("num", False), ("tuple2", True),
                                            ("str", False)]):
            base = {"shape": list(shp), "types": "ifsifs"[bi % 2:][:len(shp)],
                    "kind": kind, "split": split, "flat": (bi + ki) % 2 == 1,
                    "spelling": ["dict", "tuple"][ki % 2], "nconst": ki % 3}
            yield dict(base, strat="seq")
            yield dict(base, strat="shuffle", seed=True)
            yield dict(base, strat="shuffle", seed=5)
            fifo = list(range(n))
            orders = [fifo, fifo[::-1], fifo[n // 2:] + fifo[:n // 2],
                      fifo[1::2] + fifo[0::2],
                      fifo[:63] + fifo[63:][::-1]]
            for oi, order in enumerate(orders):
                yield dict(base, strat=["submit", "async", "fakepool"][
                    (oi + ki) % 3], order=order)


def worker_init():
    import xyzpy  # noqa


def build(case):
    shp, tv = case["shape"], case["types"]
    names = ARGS[: len(shp)]
    vals = [POOLS[t][:s] for t, s in zip(tv, shp)]
    consts = {}
    if case["nconst"] >= 1:
        consts["k1"] = 7
    if case["nconst"] >= 2:
        consts["k2"] = "w"
    # (with "varkw" the constants are not named in the signature: the
    # function takes them through **kwargs)
    f = xfn.make_fn(names + sorted(consts), kind=case["kind"], name="f01",
                    varkw=tuple(sorted(consts)) if case.get("varkw") else ())
    vf = case.get("valform")
    given = vals
    if vf:
        import numpy as np

        given = [tuple(v) if vf == "tuple" else
                 (x for x in v) if vf == "gen" else
                 np.array(v) if (vf == "array" and t in "if") else v
                 for t, v in zip(tv, vals)]
    if case["spelling"] == "dict":
        combos = dict(zip(names, given))
    elif case["spelling"] == "tuple":
        combos = tuple(zip(names, given))
    else:
        combos = (names[0], given[0])
    return f, names, vals, consts, combos


def reference(case, names, vals, consts):
    kind = case["kind"]
    pts = list(itertools.product(*vals))
    leaf = {p: xfn.expected(kind, dict(zip(names, p), **consts)) for p in pts}

    def nested(getter, depth=0, prefix=()):
        if depth == len(vals):
            return getter(leaf[prefix])
        return tuple(nested(getter, depth + 1, prefix + (v,))
                     for v in vals[depth])

    ncomp = {"tuple2": 2, "tuple3": 3, "array": 3, "list": 2}.get(kind)
    if case["flat"]:
        if case["split"]:
            return tuple(tuple(leaf[p][c] for p in pts) for c in range(ncomp))
        return tuple(leaf[p] for p in pts)
    if case["split"]:
        return tuple(nested(lambda x, c=c: x[c]) for c in range(ncomp))
    return nested(lambda x: x)


def check_special(case):
    import xyzpy as xyz

    st = case["strat"]
    kw = dict(verbosity=0)
    if st == "shuffle":
        kw["shuffle"] = 2
    if case["special"] == "pairname":
        nm, vals = case["name"], case["values"]
        f = xfn.make_fn([nm], kind="tstr", name="f01")
        key = "C01|%s|pair-spelling|" % st
        with xfn.CallLog() as log:
            try:
                got = xyz.combo_runner(f, (nm, list(vals)), **kw)
            except Exception as e:
                return fin_special(case, [(key + "raised:" + type(e).__name__,
                                           "combos=(%r, %r): %r" % (nm, vals,
                                                                    e))])
        want = tuple(xfn.expected("tstr", {nm: v}) for v in vals)
        if not cmp.leaf_equal(got, want) or len(log.calls) != len(vals):
            return fin_special(case, [(key + "wrong", "combos=(%r, %r): %d "
                                       "calls, result %r" % (
                                           nm, vals, len(log.calls), got))])
        return fin_special(case, [])
    if case["special"] == "optname":
        names = case["names"]
        f = xfn.make_fn(names, kind="tstr", name="f01")
        combos = {names[0]: [3, 1], names[1]: ["u", "v", "w"]}
        pool = None
        if st in ("submit", "async", "fakepool"):
            kw["executor"] = {"submit": SubmitExecutor, "async": AsyncExecutor,
                              "fakepool": FakePool}[st]([4, 0, 5, 2, 1, 3])
        elif st == "threads":
            import concurrent.futures

            pool = kw["executor"] = concurrent.futures.ThreadPoolExecutor(2)
        key = "C01|%s|argument-names|" % st
        try:
            with xfn.CallLog() as log:
                try:
                    got = xyz.combo_runner(f, combos, **kw)
                except Exception as e:
                    return fin_special(case, [(
                        key + "raised:" + type(e).__name__,
                        "a function of (%s): %r" % (", ".join(names), e))])
        finally:
            if pool is not None:
                pool.shutdown()
        want = tuple(tuple(xfn.expected("tstr", {names[0]: a, names[1]: b})
                           for b in ["u", "v", "w"]) for a in [3, 1])
        if not cmp.leaf_equal(got, want) or len(log.calls) != 6:
            return fin_special(case, [(key + "wrong", "a function of (%s): %d "
                                       "calls, result %r" % (
                                           ", ".join(names), len(log.calls),
                                           got))])
        return fin_special(case, [])
    if case["special"] == "twin":
        vals = case["values"]
        f = xfn.make_fn(["a", "b"] if case["two"] else ["a"], kind="tstr",
                        name="f01")
        combos = {"a": list(vals)}
        if case["two"]:
            combos["b"] = [5, 6]
        n = len(vals) * (2 if case["two"] else 1)
        if st == "submit":
            kw["executor"] = SubmitExecutor(list(range(n)))
        key = "C01|%s|twin-values|" % st
        with xfn.CallLog() as log:
            try:
                got = xyz.combo_runner(f, combos, **kw)
            except Exception:
                if log.calls:
                    return fin_special(case, [(key + "ran-first", "%d calls "
                                               "before the sweep over %r was "
                                               "refused" % (len(log.calls),
                                                            vals))])
                return fin_special(case, [])
        want = tuple(
            tuple(xfn.expected("tstr", dict(a=a, b=b)) for b in (5, 6))
            if case["two"] else xfn.expected("tstr", dict(a=a)) for a in vals)
        if not cmp.leaf_equal(got, want):
            return fin_special(case, [(key + "accepted-wrong", "a sweep over "
                                       "%r was accepted and returned %r"
                                       % (vals, got))])
        return fin_special(case, [])
    n, at = case["n"], case["at"]
    f = xfn.make_fn(["a"], kind="num", name="f01")
    vals = POOLS["i"][:n]
    if st in ("submit", "async", "fakepool"):
        kw["executor"] = {"submit": SubmitExecutor, "async": AsyncExecutor,
                          "fakepool": FakePool}[st](list(range(n))[::-1])
    key = "C01|%s|stopiteration|" % st
    with xfn.FailSet({xfn.enc(dict(a=vals[at]))}, exc="StopIteration"):
        with xfn.CallLog():
            try:
                got = xyz.combo_runner(f, {"a": vals}, flat=case["flat"], **kw)
            except BaseException:
                return fin_special(case, [])
    return fin_special(case, [(key + "swallowed", "the function raised "
                               "StopIteration for a=%r (value %d of %d) and "
                               "the sweep returned %r as if complete"
                               % (vals[at], at + 1, n, got))])


def fin_special(case, vio):
    return {"nontrivial": True, "outcome": "%s:%s" % (
        case["special"], "ok" if not vio else "bad"), "violations": vio}


def check_case(case):
    import xyzpy as xyz

    if case.get("special"):
        return check_special(case)
    f, names, vals, consts, combos = build(case)
    want = reference(case, names, vals, consts)
    pts = list(itertools.product(*vals))
    want_calls = sorted(xfn.enc(dict(zip(names, p), **consts)) for p in pts)
    kw = dict(constants=dict(consts) if consts else None,
              split=case["split"], flat=case["flat"], verbosity=0)
    st = case["strat"]
    if st == "shuffle":
        kw["shuffle"] = case["seed"]
    elif st == "submit":
        kw["executor"] = SubmitExecutor(case["order"])
    elif st == "async":
        kw["executor"] = AsyncExecutor(case["order"])
    elif st == "fakepool":
        kw["executor"] = FakePool(case["order"])
    vio = []

    def key(sym):
        return "C01|%s|%s%s%s|%s" % (
            st, case["kind"], "+split" if case["split"] else "",
            "+flat" if case["flat"] else "", sym)

    if case.get("pre"):
        tw = [[TWIN.get(v, v) if t == "i" else v for v in vs]
              for t, vs in zip(case["types"], vals)]
        with xfn.CallLog():
            xyz.combo_runner(f, dict(zip(names, tw)),
                             constants=consts or None, verbosity=0)
    if case.get("again"):
        # the caller sweeps the very same combos / constants objects twice;
        # the second sweep is the one judged
        with xfn.CallLog():
            try:
                xyz.combo_runner(f, combos, **kw)
            except Exception:
                pass
        if "executor" in kw:
            # (same executor object; its scripted completion order restarts)
            kw["executor"].ctrl = Controller(case["order"])
    with xfn.CallLog() as log:
        try:
            got = xyz.combo_runner(f, combos, **kw)
        except core.HarnessError:
            raise
        except Exception as e:
            return {"nontrivial": len(vals) >= 2 and len(pts) >= 4,
                    "outcome": "raised",
                    "violations": [(key("raised:" + type(e).__name__),
                                    "shape %r types %s: %r"
                                    % (case["shape"], case["types"], e))]}
    calls = sorted(log.encs())
    if case["kind"] == "tstr":
        want_calls = sorted(xfn.tenc(dict(zip(names, p), **consts))
                            for p in pts)
    if calls != want_calls:
        miss = [c for c in want_calls if c not in calls][:2]
        extra = [c for c in calls if c not in want_calls][:2]
        vio.append((key("calls"),
                    "shape %r: %d calls for %d combinations; missing %r, "
                    "unexpected %r, duplicates %d" % (
                        case["shape"], len(calls), len(want_calls), miss, extra,
                        len(calls) - len(set(calls)))))
    if not cmp.leaf_equal(got, want):
        vio.append((key("placement"),
                    "shape %r types %s spelling %s consts %d%s: result is not "
                    "the reference nesting" % (
                        case["shape"], case["types"], case["spelling"],
                        case["nconst"],
                        " order %r" % case.get("order") if "order" in case
                        else " seed %r" % case.get("seed", None))))
    return {"nontrivial": len(vals) >= 2 and len(pts) >= 4,
            "outcome": "%s:%s" % (st, "ok" if not vio else "bad"),
            "violations": vio}


# --------------------------------------------------------------------------- #
# conformance with real pools (main process)


def real_pools(ctx):
    import xyzpy as xyz
    from concurrent.futures import ThreadPoolExecutor, ProcessPoolExecutor
    from multiprocessing.pool import ThreadPool

    logf = os.path.join(core.scratch_root(), "c01-calls.log")
    os.environ["XV_CALLLOG"] = logf  # before any worker process is created
    runs = 0
    grids = [{"shape": [3, 2], "types": "is"}, {"shape": [2, 2, 2], "types": "fsi"},
             {"shape": [4], "types": "s"}]
    for g in grids:
        case = dict(g, kind="tuple2", split=True, flat=False, spelling="dict",
                    nconst=1)
        f, names, vals, consts, combos = build(case)
        setattr(sys.modules["__main__"], "f01", f)  # picklable by reference
        want = reference(case, names, vals, consts)
        pts = list(itertools.product(*vals))
        want_calls = sorted(xfn.enc(dict(zip(names, p), **consts)) for p in pts)

        def one(label, **kw):
            nonlocal runs
            if os.path.exists(logf):
                os.remove(logf)
            try:
                got = xyz.combo_runner(f, combos, constants=consts, split=True,
                                       verbosity=0, **kw)
                calls = sorted(l.split("\t")[1] for l in
                               open(logf).read().strip().split("\n"))
                ok = cmp.leaf_equal(got, want) and calls == want_calls
                why = "result or call log differs"
            except Exception as e:
                ok, why = False, repr(e)
            runs += 1
            if not ok:
                ctx.violation("C01|realpool|%s" % label,
                              "%s on grid %r: %s" % (label, g, why),
                              {"realpool": label, "grid": g})

        with ThreadPoolExecutor(3) as ex:
            one("ThreadPoolExecutor", executor=ex)
        # (options that are both given: the supplied executor is the one used,
        # once)
        with ThreadPoolExecutor(3) as ex:
            one("ThreadPoolExecutor+num_workers", executor=ex, num_workers=2)
        with ThreadPoolExecutor(2) as ex:
            one("ThreadPoolExecutor+parallel", executor=ex, parallel=True)
        with ThreadPool(3) as ex:
            one("ThreadPool", executor=ex)
        with ProcessPoolExecutor(2) as ex:
            one("ProcessPoolExecutor", executor=ex)
        with multiprocessing.get_context("fork").Pool(2) as ex:
            one("multiprocessing.Pool", executor=ex)
        one("parallel=True", parallel=True)
        one("num_workers=2", num_workers=2)
        one("parallel=2+shuffle", parallel=2, shuffle=3)
    try:
        from joblib.externals.loky import get_reusable_executor

        get_reusable_executor().shutdown(wait=True)
    except Exception:
        pass
    os.environ.pop("XV_CALLLOG", None)
    return runs


def run(ctx):
    ctx.run_cases(cases(ctx.tier, ctx.seed))
    n = real_pools(ctx)
    ctx.coverage_extra["real_pool_runs"] = n


def replay(case):
    if "realpool" in case:
        class C:
            v = []

            def violation(self, k, w, c):
                self.v.append((k, w))
        c = C()
        real_pools(c)
        return c.v
    return check_case(case)["violations"]
