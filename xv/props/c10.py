"""C10 - killing a worker at any instant never corrupts what is later reaped.

Crash-point enumeration (xv.crash) over the recorded file-operation log of
sow / grow / reap workloads on raw, Runner, Harvester and Sampler crops; in
every crash state a fresh session probes reap (P1), reap(allow_incomplete)
(P1b), the documented recovery (P2), survival of earlier harvested data (P3)
and - thorough tier - a second crash during the recovery itself (P4).
"""
import os
import re
import sys
import json
import subprocess

from xv import core, fsseam, crash, cmp, fn as xfn

ID = "C10"
LEVEL = "fault_enumeration"
RULE = (
    "for each workload (sow, re-sow over a partly grown crop, xyz.grow, "
    "Crop.grow, grow_missing, reap) on raw/Runner/Harvester/Sampler crops of "
    "3-4 batches: every prefix of the recorded mutation log, plus torn "
    "prefixes of every write, materialised as a disk state; in each state "
    "P1 reap, P1b reap(allow_incomplete), P2 recovery, P3 earlier data "
    "survives; distinct = distinct tree hash per workload; non-trivial = the "
    "state differs from both the pre-state and the final state"
)
ASSUMPTIONS = [
    "process kill, not power loss: completed system calls persist in order, "
    "the last write may be torn; no block re-ordering",
    "a fresh session is a new set of Python objects built from name and "
    "directory (conformance with real killed sub-processes: see "
    "coverage.sigkill_conformance)",
    "HDF5 writes bypass Python; they are modelled as file absent -> empty -> "
    "half -> all-but-one byte -> complete",
    "recovery procedure: Crop(name, dir); if that raises, or the crop is not "
    "prepared, or reports fewer sown batches than num_batches: re-run the "
    "sow script (the same constructor call with default autoload, and the "
    "same sow call) -> check_bad -> grow_missing -> reap; no step is "
    "retried",
]

# (given in an order that is not the alphabetical one the sower uses)
COMBOS = {"b": [4, 5], "a": [1, 2, 3]}

_DRAW_SRC = '''
def draw_a():
    import builtins
    c = getattr(builtins, "_xv_draw_a", 0)
    builtins._xv_draw_a = c + 1
    return [1, 2, 3][c % 3]


def draw_b():
    import builtins
    c = getattr(builtins, "_xv_draw_b", 0)
    builtins._xv_draw_b = c + 1
    return [4, 5][c % 2]
'''
_ns = {"__name__": "__main__"}
exec(_DRAW_SRC, _ns)

SCENARIOS = {
    # name: (kind, batch kwargs, engine, earlier)
    "raw-bs2": ("raw", {"batchsize": 2}, None, None),
    "raw-nb4": ("raw", {"num_batches": 4}, None, None),
    # (short last batch: 4 + 2)
    "raw-bs4": ("raw", {"batchsize": 4}, None, None),
    "runner": ("runner", {"batchsize": 2}, None, None),
    "harv-h5-disjoint": ("harvester", {"batchsize": 2}, "h5netcdf", "disjoint"),
    "harv-h5-noext": ("harvester", {"batchsize": 3}, "h5netcdf", "overlap"),
    "harv-jl-overlap": ("harvester", {"batchsize": 2}, "joblib", "overlap"),
    "harv-jl-none": ("harvester", {"num_batches": 2}, "joblib", None),
    "samp-pkl": ("sampler", {"batchsize": 2}, "pickle", "rows"),
    "samp-csv": ("sampler", {"batchsize": 1}, "csv", "rows"),
    # a harvester that keeps its dataset lazily (chunks; used by C12)
    "harv-h5-lazy": ("harvester", {"batchsize": 2}, "h5netcdf", "overlap"),
    # a harvester that only lives in memory: no data file (used by C12)
    "harv-mem": ("harvester", {"batchsize": 2}, None, None),
    # a runner whose function has three outputs (used by C12)
    "runner3": ("runner", {"batchsize": 2}, None, None),
    # a sampler whose table does not exist yet (used by C12)
    "samp-pkl-none": ("sampler", {"batchsize": 2}, "pickle", None),
    # results that are bools, the very last one False (used by C12)
    "raw-bool": ("raw", {"batchsize": 2}, None, None),
}

C10_SCENARIOS = [n_ for n_ in SCENARIOS
                 if n_ not in ("raw-bool", "samp-pkl-none", "runner3",
                               "harv-mem", "harv-h5-lazy")]
WORKLOADS = ["sow", "resow", "grow1", "growmulti", "growmissing", "reap"]


class Scn:
    def __init__(self, name):
        self.name = name
        self.kind, self.batch, self.engine, self.earlier = SCENARIOS[name]
        self.rkind = "num"
        self.combos = COMBOS
        if name == "raw-bool":
            self.rkind = "bool"
            bb = next(b for b in range(5, 200) if not xfn.expected(
                "bool", dict(a=3, b=b)))
            self.combos = {"b": [4, bb], "a": [1, 2, 3]}
        self.var_names = "out"
        if name == "runner3":
            self.rkind = "tuple3n"
            self.var_names = ["out", "half", "quarter"]
        self.f = xfn.make_fn(["a", "b"], kind=self.rkind, name="f10")
        self.nsamples = 3
        ext = {"h5netcdf": ".h5", "joblib": ".dmp", "pickle": ".pkl",
               "csv": ".csv", None: ""}[self.engine]
        if name == "harv-h5-noext":
            ext = ""
        self.dfile = "data" + ext

    # ---- objects ("sessions") --------------------------------------------
    def farmer(self, d):
        import xyzpy as xyz

        if self.kind == "raw":
            return None
        r = xyz.Runner(self.f, var_names=self.var_names)
        if self.kind == "runner":
            return r
        path = os.path.join(d, self.dfile)
        if self.name == "harv-mem":
            return xyz.Harvester(r)
        if self.kind == "harvester":
            return xyz.Harvester(r, data_name=path, engine=self.engine,
                                 chunks=1 if self.name == "harv-h5-lazy"
                                 else None)
        return xyz.Sampler(r, data_name=path, engine=self.engine,
                           default_combos={"a": _ns["draw_a"],
                                           "b": _ns["draw_b"]})

    def new_crop(self, d, autoload=True, far=None):
        import xyzpy as xyz

        far = far if far is not None else self.farmer(d)
        if far is None:
            return xyz.Crop(fn=self.f, name="k", parent_dir=d,
                            autoload=autoload, **self.batch)
        return xyz.Crop(farmer=far, name="k", parent_dir=d,
                        autoload=autoload, **self.batch)

    def fresh_crop(self, d):
        import xyzpy as xyz

        return xyz.Crop(name="k", parent_dir=d)

    def sow(self, crop):
        if self.kind == "sampler":
            # the user's sow script is seeded: re-running it draws the same
            # samples again (otherwise kept results would belong to other
            # cases after a re-sow)
            import builtins

            builtins._xv_draw_a = builtins._xv_draw_b = 100
            crop.sow_samples(self.nsamples, verbosity=0)
        else:
            # (one scenario sows in an order shuffled with seed 3)
            # (two more with shuffle=True: re-running the sow script gives
            # the same order again)
            crop.sow_combos(self.combos, verbosity=0,
                            shuffle=3 if self.name == "raw-nb4" else
                            self.name in ("raw-bs4", "runner"))

    def seed_earlier(self, d, far=None):
        far = far if far is not None else self.farmer(d)
        if self.kind == "harvester" and self.earlier == "disjoint":
            far.harvest_combos({"a": [7], "b": [4, 5]}, verbosity=0)
        elif self.kind == "harvester" and self.earlier == "overlap":
            far.harvest_combos({"a": [1, 7], "b": [4]}, verbosity=0)
        elif self.kind == "sampler":
            far.sample_combos(2, verbosity=0)

    # ---- reference -------------------------------------------------------
    def earlier_cells(self):
        if self.kind != "harvester" or not self.earlier:
            return {}
        if self.earlier == "disjoint":
            pts = [(7, 4), (7, 5)]
        else:
            pts = [(1, 4), (7, 4)]
        return {("out", (("a", a), ("b", b))): xfn.expected("num", dict(a=a, b=b))
                for a, b in pts}

    def new_cells(self):
        if self.rkind == "tuple3n":
            return {(v, (("a", a), ("b", b))):
                    xfn.expected("tuple3n", dict(a=a, b=b))[i]
                    for i, v in enumerate(self.var_names)
                    for a in COMBOS["a"] for b in COMBOS["b"]}
        return {("out", (("a", a), ("b", b))): xfn.expected("num", dict(a=a, b=b))
                for a in COMBOS["a"] for b in COMBOS["b"]}

    def load_data(self, d):
        """decoded data file, or raises"""
        import xyzpy as xyz

        path = os.path.join(d, self.dfile)
        if self.kind == "harvester":
            ds = xyz.load_ds(path, engine=self.engine)
            return cmp.ds_to_dict(ds)
        df = xyz.manage.load_df(path, engine=self.engine)
        return cmp.df_rows(df)

    def data_exists(self, d):
        import xyzpy as xyz

        path = os.path.join(d, self.dfile)
        if self.kind == "harvester":
            path = xyz.manage.auto_add_extension(path, self.engine)
        return os.path.exists(path)

    def row_ok(self, row):
        try:
            a, b = row["a"], row["b"]
            return (a in (1, 2, 3) and b in (4, 5)
                    and row["out"] == xfn.expected("num", dict(a=a, b=b)))
        except Exception:
            return False

    def judge_reaped(self, res, incomplete_ok=False):
        """'exact' | 'partial' | 'wrong:<why>' for the value a reap returned"""
        import numpy as np

        if self.kind == "raw":
            nmiss = 0
            for i, a in enumerate(self.combos["a"]):
                for j, b in enumerate(self.combos["b"]):
                    try:
                        v = res[i][j]
                    except Exception:
                        return "wrong:shape"
                    if cmp.leaf_missing(v):
                        nmiss += 1
                    elif v != xfn.expected(self.rkind, dict(a=a, b=b)) or (
                            self.rkind == "bool" and not isinstance(
                                v, (bool, __import__("numpy").bool_))):
                        return "wrong:value at a=%r b=%r" % (a, b)
            if len(res) != 3 or any(len(r) != 2 for r in res):
                return "wrong:shape"
            return "exact" if nmiss == 0 else "partial"
        if self.kind in ("runner", "harvester"):
            got = cmp.ds_to_dict(res)
            want = self.new_cells()
            for k, v in got.items():
                if k not in want or want[k] != v:
                    return "wrong:cell %r" % (k,)
            return "exact" if len(got) == len(want) else "partial"
        rows = cmp.df_rows(res)
        nmiss = 0
        for r in rows:
            if r.get("out") is None:
                nmiss += 1
            elif not self.row_ok(r):
                return "wrong:row %r" % (r,)
        if len(rows) != self.nsamples:
            return "wrong:%d rows instead of %d" % (len(rows), self.nsamples)
        return "exact" if nmiss == 0 else "partial"

    def judge_data(self, d, earlier_rows):
        """after a completed reap / recovery: problems with the data file"""
        if self.name == "harv-mem":
            # (no file: the reaped data must have been merged into the
            # harvester the reap went through)
            far = getattr(self, "live_farmer", None)
            if far is None:
                return None
            fd = far.full_ds
            got = {} if fd is None else cmp.ds_to_dict(fd)
            return None if got == self.new_cells() else "memory-not-merged"
        if self.kind == "harvester":
            try:
                got = self.load_data(d)
            except Exception as e:
                return "data-unreadable:%s" % type(e).__name__
            want = dict(self.earlier_cells())
            want.update(self.new_cells())
            if got != want:
                lost = [k for k in self.earlier_cells() if k not in got]
                if lost:
                    return "earlier-data-lost"
                return "data-wrong"
        if self.kind == "sampler":
            try:
                rows = self.load_data(d)
            except Exception as e:
                return "data-unreadable:%s" % type(e).__name__
            ne = len(earlier_rows)
            if [cmp.row_key(r) for r in rows[:ne]] != [
                    cmp.row_key(r) for r in earlier_rows]:
                return "earlier-data-lost"
            new = rows[ne:]
            if not all(self.row_ok(r) for r in new):
                return "data-wrong"
            if len(new) > self.nsamples:
                return "dup-rows"
            if len(new) < self.nsamples:
                return "rows-missing"
        return None


# --------------------------------------------------------------------------- #


def build_pre(sc, d, wl):
    """create the pre-state of workload ``wl`` in directory d (unrecorded)"""
    import xyzpy as xyz
    from xyzpy.gen.cropping import grow

    core.fresh_dir(os.path.basename(d))
    # (the farmer that harvested the earlier data also sows the crop: it is
    # pickled into the crop together with what it holds in memory)
    far = sc.farmer(d)
    if sc.earlier:
        sc.seed_earlier(d, far)
    if wl == "sow":
        return
    crop = sc.new_crop(d, far=far)
    sc.sow(crop)
    grown = {"resow": [1], "grow1": [], "growmulti": [1], "growmissing": [2],
             "reap": list(range(1, crop.num_batches + 1))}[wl]
    for i in grown:
        grow(i, crop=crop, verbosity=0)


def action(sc, d, wl):
    from xyzpy.gen.cropping import grow

    if wl in ("sow", "resow"):
        crop = sc.new_crop(d)
        sc.sow(crop)
    elif wl == "grow1":
        grow(2, crop=sc.fresh_crop(d), verbosity=0)
    elif wl == "growmulti":
        crop = sc.fresh_crop(d)
        crop.grow(list(range(2, crop.num_batches + 1)), verbosity=0)
    elif wl == "growmissing":
        sc.fresh_crop(d).grow_missing(verbosity=0)
    elif wl == "reap":
        return sc.fresh_crop(d).reap()


def recover(sc, d):
    """the documented recovery; returns (reaped value, number of re-sows).
    Whether the sown files are complete is what the crop itself reports;
    nothing is retried: an exception anywhere means the recovery failed."""
    resown = 0
    crop = None
    try:
        crop = sc.fresh_crop(d)
        if (not crop.is_prepared()
                or crop.num_sown_batches != crop.num_batches):
            crop = None
    except Exception:
        # (a crop that cannot even be opened by name is re-sown)
        crop = None
    if crop is None:
        # re-run the sow script (same constructor call, same sow call)
        crop = sc.new_crop(d)
        sc.sow(crop)
        resown = 1
    with core.Silence():
        crop.check_bad()
    crop.grow_missing(verbosity=0)
    return crop.reap(), resown


def probe_state(sc, d, snap, wl, label, earlier_rows, probes=("P1", "P1b", "P2", "P3")):
    """run the probes on one crash state; returns (violations, outcome str)"""
    vio = []
    oc = []

    # the one window that cannot be closed without an idempotence token: the
    # sampler's table already holds the new rows but the crop still exists
    window = False
    if sc.kind == "sampler" and any(k.startswith(".xyz-k") for k in snap):
        fsseam.restore(d, snap)
        try:
            window = len(sc.load_data(d)) >= len(earlier_rows) + sc.nsamples
        except Exception:
            window = False

    def key(probe, sym):
        if window and sym == "dup-rows":
            return ("C10|%s|table-saved-crop-not-yet-deleted|dup-rows"
                    % sc.name)
        return "C10|%s|%s|%s|%s" % (sc.name, wl, probe, sym)

    # P3: earlier data still there (reap-and-sync workloads)
    if "P3" in probes and sc.earlier and wl == "reap":
        fsseam.restore(d, snap)
        try:
            data = sc.load_data(d)
            if sc.kind == "harvester":
                lost = [k for k, v in sc.earlier_cells().items()
                        if data.get(k) != v]
            else:
                have = [cmp.row_key(r) for r in data]
                lost = [r for r in earlier_rows if cmp.row_key(r) not in have]
            if lost:
                vio.append((key("P3", "earlier-data-lost"),
                            "at %s the data file loads but lacks earlier "
                            "data %r" % (label, lost[:2])))
        except Exception as e:
            vio.append((key("P3", "earlier-data-unreadable"),
                        "at %s the earlier harvested data cannot be loaded: "
                        "%s" % (label, type(e).__name__)))
    # P1: plain reap
    if "P1" in probes:
        fsseam.restore(d, snap)
        try:
            res = sc.fresh_crop(d).reap()
            j = sc.judge_reaped(res)
            if j != "exact":
                vio.append((key("P1", "silently-" + j.split(":")[0]),
                            "at %s reap() succeeded with %s" % (label, j)))
            dj = sc.judge_data(d, earlier_rows)
            if dj:
                vio.append((key("P1", dj),
                            "at %s reap() succeeded but left the data file: "
                            "%s" % (label, dj)))
            oc.append("P1=" + j.split(":")[0])
        except Exception as e:
            oc.append("P1=raises")
    if "P1b" in probes:
        fsseam.restore(d, snap)
        try:
            res = sc.fresh_crop(d).reap(allow_incomplete=True)
            j = sc.judge_reaped(res)
            if j.startswith("wrong"):
                vio.append((key("P1b", "wrong"),
                            "at %s reap(allow_incomplete) returned %s"
                            % (label, j)))
            oc.append("P1b=" + j.split(":")[0])
        except Exception:
            oc.append("P1b=raises")
    # P1g: the workers simply carry on - every batch file that is there is
    # grown (nothing is re-sown or discarded) - and then a plain reap
    if "P1" in probes and wl in ("sow", "grow"):
        fsseam.restore(d, snap)
        try:
            import glob
            from xyzpy.gen.cropping import grow as _grow
            ids = sorted(int(os.path.basename(p_).split("-")[-1].split(".")[0])
                         for p_ in glob.glob(os.path.join(
                             d, ".xyz-k", "batches", "xyz-batch-*.jbdmp")))
            for i in ids:
                try:
                    _grow(i, crop=sc.fresh_crop(d), verbosity=0)
                except Exception:
                    pass
            res = sc.fresh_crop(d).reap()
            j = sc.judge_reaped(res)
            if j != "exact":
                vio.append((key("P1g", "silently-" + j.split(":")[0]),
                            "at %s, after growing the batch files that are "
                            "there, reap() succeeded with %s" % (label, j)))
            dj = sc.judge_data(d, earlier_rows)
            if dj:
                vio.append((key("P1g", dj), "at %s, after growing the batch "
                            "files that are there, reap() left the data "
                            "file: %s" % (label, dj)))
            oc.append("P1g=" + j.split(":")[0])
        except Exception as e:
            oc.append("P1g=raises")
    if "P2" in probes:
        fsseam.restore(d, snap)
        try:
            res, resown = recover(sc, d)
            j = sc.judge_reaped(res)
            if j != "exact":
                vio.append((key("P2", "recovery-" + j.split(":")[0]),
                            "at %s recovery reaped %s" % (label, j)))
            dj = sc.judge_data(d, earlier_rows)
            if dj:
                vio.append((key("P2", dj),
                            "at %s after recovery the data file is: %s"
                            % (label, dj)))
            oc.append("P2=ok/%d" % resown if j == "exact" and not dj
                      else "P2=bad")
        except Exception as e:
            vio.append((key("P2", "recovery-failed:" + type(e).__name__),
                        "at %s recovery raised %r" % (label, e)))
            oc.append("P2=raises")
    return vio, ",".join(oc)


def record(sc, d, wl, order=None):
    """-> (pre snapshot, mutation log, final snapshot, earlier rows)"""
    build_pre(sc, d, wl)
    pre = fsseam.snapshot(d)
    # re-create the tree in canonical order so that directory listing order
    # (which decides rmtree's deletion order) is the same in every process
    fsseam.restore(d, pre)
    import builtins

    builtins._xv_draw_a = builtins._xv_draw_b = 100
    earlier_rows = []
    if sc.kind == "sampler" and sc.earlier:
        earlier_rows = sc.load_data(d)
    with fsseam.Seam(d, detect_opaque=True, list_order=order) as seam:
        action(sc, d, wl)
    final = fsseam.snapshot(d)
    # seam completeness: the log must reproduce the final tree byte for byte
    if fsseam.replay_log(pre, seam.log) != final:
        raise core.HarnessError(
            "fsseam incomplete: replaying the log of %s/%s does not give the "
            "final tree" % (sc.name, wl))
    return pre, seam.log, final, earlier_rows


def run_workload(task):
    """worker entry: one (scenario, workload)"""
    import builtins

    name, wl, level, do_p4 = task
    sc = Scn(name)
    d = os.path.join(core.scratch_root(), "c10.results[1].xyz-batch-1")
    builtins._xv_draw_a = builtins._xv_draw_b = 0
    # the order in which a directory hands out its entries (it decides the
    # order in which a crop's files are deleted) is the file system's
    # choice: the deleting workload is recorded under both name orders
    orders = ["asc", "desc"] if wl == "reap" else [None]
    states, seen_h, nops = [], set(), 0
    for order in orders:
        builtins._xv_draw_a = builtins._xv_draw_b = 0
        pre, log, final, earlier_rows = record(sc, d, wl, order)
        nops += len(log)
        for label, snap in crash.crash_states(pre, log, level):
            h = fsseam.snap_hash(snap)
            if h in seen_h:
                continue
            seen_h.add(h)
            states.append((label + ("@" + order if order else ""), snap))
    hpre, hfin = fsseam.snap_hash(pre), fsseam.snap_hash(final)
    out = {"task": [name, wl], "nops": nops, "states": 0, "nontrivial": [],
           "outcomes": {}, "violations": [], "p4_states": 0, "samples": []}
    for label, snap in states:
        h = fsseam.snap_hash(snap)
        probes = ("P1", "P1b", "P2", "P3")
        if wl == "reap" and h == hfin:
            # the reap completed: there is nothing to recover from
            probes = ("P3",)
        vio, oc = probe_state(sc, d, snap, wl, label, earlier_rows, probes)
        out["states"] += 1
        if h not in (hpre, hfin):
            out["nontrivial"].append("%s/%s/%s" % (name, wl, h))
        out["outcomes"][oc] = out["outcomes"].get(oc, 0) + 1
        for k, w in vio:
            out["violations"].append((k, w, {"scenario": name, "workload": wl,
                                             "label": label, "level": level}))
        if len(out["samples"]) < 2 and h not in (hpre, hfin):
            out["samples"].append({"scenario": name, "workload": wl,
                                   "crash_at": label, "outcome": oc})
    if do_p4:
        # second crash: during the recovery from an op-boundary crash state
        for label, snap in states:
            if "+" in label.split(":")[0]:
                continue
            if wl == "reap" and fsseam.snap_hash(snap) == hfin:
                continue  # the reap completed: nothing to recover from
            fsseam.restore(d, snap)
            try:
                with fsseam.Seam(d, detect_opaque=True) as seam2:
                    recover(sc, d)
            except Exception:
                continue  # already reported by P2
            hfin2 = fsseam.snap_hash(fsseam.replay_log(snap, seam2.log))
            for l2, s2 in crash.crash_states(snap, seam2.log, "quick"):
                if fsseam.snap_hash(s2) == hfin2:
                    continue  # the recovery completed
                vio, oc = probe_state(sc, d, s2, wl, label + ">>" + l2,
                                      earlier_rows, probes=("P1", "P2", "P3"))
                out["p4_states"] += 1
                out["nontrivial"].append(
                    "%s/%s/p4/%s" % (name, wl, fsseam.snap_hash(s2)))
                for k, w in vio:
                    k = k.replace("|P1|", "|P4.P1|").replace(
                        "|P2|", "|P4.P2|").replace("|P3|", "|P4.P3|")
                    out["violations"].append(
                        (k, w, {"scenario": name, "workload": wl,
                                "label": label, "second": l2, "level": level}))
    return out


def sigkill_conformance(task):
    """really kill a sub-process at op index k and compare the tree with the
    materialised crash state"""
    name, wl, which = task
    sc = Scn(name)
    d = os.path.join(core.scratch_root(), "c10.results[1].xyz-batch-1")
    import builtins

    builtins._xv_draw_a = builtins._xv_draw_b = 0
    pre, log, final, _ = record(sc, d, wl)
    # the m-th traced mutating op (opaque entries are not traced ops)
    idxs = [m + 1 for m in range(sum(1 for op in log if op["i"] >= 0))]
    if not idxs:
        return {"checked": 0, "mismatch": []}
    picks = sorted({idxs[(which * 7 + j * 3) % len(idxs)] for j in range(3)})
    mismatch = []
    for k in picks:
        fsseam.restore(d, pre)
        env = dict(os.environ, PYTHONPATH=core.REPO + ":" + core.VERIF)
        p = subprocess.run(
            [sys.executable, "-m", "xv.props.c10", "child", name, wl, str(k), d],
            env=env, cwd=core.VERIF, capture_output=True)
        if p.returncode != -9:
            mismatch.append("child for %s/%s k=%d exited %r: %s" % (
                name, wl, k, p.returncode, p.stderr.decode()[-300:]))
            continue
        got = fsseam.snapshot(d)
        snap = dict(pre)
        m = 0
        for op in log:
            # (opaque entries, i == -1, were flushed before the traced op
            # they precede in the log)
            fsseam.apply_op(snap, op)
            if op["i"] >= 0:
                m += 1
                if m == k:
                    break
        # temporary file names are random per process: compare modulo them
        got = {fsseam.norm_rel(k): v for k, v in got.items()}
        snap = {fsseam.norm_rel(k): v for k, v in snap.items()}
        if fsseam.snap_hash(got) != fsseam.snap_hash(snap):
            mismatch.append("%s/%s kill at op %d: real tree differs from the "
                            "materialised state" % (name, wl, k))
    return {"checked": len(picks), "mismatch": mismatch}


def run(ctx):
    tier = ctx.tier
    level = "quick" if tier == "quick" else "thorough"
    if tier == "quick":
        plan = []
        for name in C10_SCENARIOS:
            kind = SCENARIOS[name][0]
            wls = WORKLOADS if name == "raw-bs2" else (
                ["sow", "grow1", "reap"] if kind != "raw"
                else ["sow", "resow", "growmissing", "reap"])
            plan += [(name, wl, level, False) for wl in wls]
    else:
        plan = [(name, wl, level, name in ("raw-nb4", "harv-jl-overlap",
                                           "samp-pkl", "runner"))
                for name in C10_SCENARIOS for wl in WORKLOADS]
    ctx.rng.shuffle(plan)
    nops = 0
    p4 = 0
    for out in ctx.map_unordered("run_workload", plan):
        nops += out["nops"]
        p4 += out["p4_states"]
        ctx.evaluations += out["states"] + out["p4_states"]
        ctx.nontrivial.update(out["nontrivial"])
        for oc, n in out["outcomes"].items():
            ctx.outcomes[oc] = ctx.outcomes.get(oc, 0) + n
        for k, w, case in out["violations"]:
            ctx.violation(k, w, case)
        for s in out["samples"]:
            ctx.sample(s, limit=6)
    # conformance with real SIGKILL
    ntasks = 4 if tier == "quick" else 24
    names = list(C10_SCENARIOS)
    ctasks = [(names[(ctx.seed + i) % len(names)],
               WORKLOADS[(ctx.seed + i * 5) % len(WORKLOADS)], ctx.seed + i)
              for i in range(ntasks)]
    checked, mism = 0, []
    for r in ctx.map_unordered("sigkill_conformance", ctasks):
        checked += r["checked"]
        mism += r["mismatch"]
    if mism and not ctx.violations:
        raise core.HarnessError("SIGKILL conformance: " + "; ".join(mism[:3]))
    ctx.coverage_extra.update({
        "workloads": len(plan), "mutation_ops_recorded": nops,
        "second_crash_states": p4, "cut_level": level,
        "sigkill_conformance": {"kills": checked, "mismatches": len(mism)},
    })


def replay(case):
    import builtins

    sc = Scn(case["scenario"])
    d = os.path.join(core.scratch_root(), "c10.results[1].xyz-batch-1")
    builtins._xv_draw_a = builtins._xv_draw_b = 0
    order = case["label"].split("@")[1] if "@" in case["label"] else None
    pre, log, final, earlier_rows = record(sc, d, case["workload"], order)
    vio = []
    for label, snap in crash.crash_states(pre, log, case.get("level", "quick")):
        if label + ("@" + order if order else "") != case["label"]:
            continue
        label = case["label"]
        if case.get("second"):
            fsseam.restore(d, snap)
            with fsseam.Seam(d, detect_opaque=True) as seam2:
                recover(sc, d)
            for l2, s2 in crash.crash_states(snap, seam2.log, "quick"):
                if l2 == case["second"]:
                    v, _ = probe_state(sc, d, s2, case["workload"],
                                       label + ">>" + l2, earlier_rows,
                                       probes=("P1", "P2", "P3"))
                    vio += [(k.replace("|P1|", "|P4.P1|").replace(
                        "|P2|", "|P4.P2|").replace("|P3|", "|P4.P3|"), w)
                        for k, w in v]
        else:
            v, _ = probe_state(sc, d, snap, case["workload"], label,
                               earlier_rows)
            vio += v
    return vio


def _child(name, wl, k, d):
    """sub-process body for the SIGKILL conformance pass"""
    import builtins

    core.quiet()
    sc = Scn(name)
    builtins._xv_draw_a = builtins._xv_draw_b = 100
    with fsseam.Seam(d, mode="kill", kill_at_mut=int(k)):
        action(sc, d, wl)
    sys.exit(3)  # not reached if the kill index was valid


if __name__ == "__main__":
    if sys.argv[1] == "child":
        _child(*sys.argv[2:6])
