"""C20 - a number formatted with its error reads back as that number and that
error."""
import re
import itertools
from decimal import Decimal

from xv import core

ID = "C20"
LEVEL = "exploration"
RULE = (
    "decimal lattice: error mantissas 1.00 ... 9.99 and 9.950 ... 9.999, "
    "value mantissas from a rounding-boundary set (about 60), both signs and "
    "x = 0, value exponents {-300, -12..12, 300} (quick -3..3), error/value "
    "exponent offsets -12..12 (quick -4..4), plus sparser sweeps at value / "
    "error exponents +-{16,17,99,100,101,200,300} (printed-width changes and "
    "the ends of the float range), and every value exponent -306..306 with 5 "
    "mantissas x 6 offsets (down to errors 1e-12 of the value: 13 shown "
    "digits) x 4 errors x both signs; each formatted string is read "
    "back by an independent regex + Decimal reader; non-trivial = every "
    "point (each is a distinct (x, err) pair)"
)
ASSUMPTIONS = [
    "reading convention: bracketed digits are the uncertainty in the last "
    "shown digits, times the shown power of ten",
    "required: |stated error - err| <= half a unit of err's second "
    "significant digit, the stated error has two digits, |stated value - x| "
    "<= half a unit of the last shown digit; slack: 1e-9 of the half unit / "
    "of the error, and 2e-15 of the value (a few units of float precision) "
    "so that a tie decided either way by binary rounding is accepted",
    "a bounded decimal lattice, not all floats",
]

PAT = re.compile(r"^(-?)(\d+)(?:\.(\d+))?\((\d+)\)(?:e([+-]\d+))?$")


def x_mantissas():
    ms = set()
    for m in ("1", "1.01", "1.49", "1.5", "1.51", "2", "2.5", "3.14159",
              "4.999", "5", "5.0001", "7.77", "9", "9.4", "9.49", "9.5",
              "9.51", "9.9", "9.94", "9.949", "9.95", "9.951", "9.96", "9.99",
              "9.994", "9.995", "9.996", "9.999", "9.9994", "9.9995",
              "9.9996", "9.99995", "1.0001", "1.00001", "1.04", "1.05",
              "1.06", "1.094", "1.095", "1.096", "1.2345", "1.25", "1.35",
              "1.45", "1.55", "2.25", "2.35", "3.5", "4.5", "4.45", "4.55",
              "6.5", "7.5", "8.5", "8.45", "8.55", "9.05", "9.15", "9.25",
              "9.35", "9.45", "9.55",
              # many significant digits (shown when the error is tiny)
              "1.2812412309", "3.1415926535", "9.8765432123",
              "5.0000000499"):
        ms.add(m)
    return sorted(ms)


def err_mantissas(dense):
    if dense:
        ms = ["%d.%02d" % (i // 100, i % 100) for i in range(100, 1000)]
    else:
        ms = ["%d.%02d" % (i // 100, i % 100) for i in range(100, 1000, 7)]
        ms += ["%d.%d5" % (a, b) for a in range(1, 10) for b in range(10)]
    ms += ["9.%03d" % i for i in range(950, 1000)]
    # a hair below / above the points where the second digit rounds
    for a in range(1, 10):
        for b in (0, 3, 4, 8, 9):
            ms += ["%d.%d49999999" % (a, b), "%d.%d4999999" % (a, b),
                   "%d.%d50000001" % (a, b)]
    return sorted(set(ms))


def tasks(tier):
    xexps = list(range(-3, 4)) if tier == "quick" else (
        [-300] + list(range(-12, 13)) + [300])
    offs = (list(range(-4, 5)) + [-12, -9, -6, 6, 9, 12]) if tier == "quick" \
        else list(range(-12, 13))
    out = []
    for xe in xexps:
        for sign in (1, -1):
            for off_chunk in core.chunked(offs, 3 if tier == "thorough" else 9):
                out.append({"xexp": xe, "sign": sign, "offs": off_chunk,
                            "tier": tier})
    # magnitudes where the exponent changes its printed width, and the ends
    # of the float range (sparser mantissas)
    far = [-300, -200, -101, -100, -99, -17, 16, 99, 100, 101, 200, 300]
    for xe in far:
        if xe in xexps:
            continue
        for sign in (1, -1):
            out.append({"xexp": xe, "sign": sign, "offs": [-3, -1, 0, 1, 2, 4],
                        "tier": tier, "sparse": True})
    # every decimal exponent a float can have, with a few mantissas each (a
    # table of powers of ten, or a string trick, can go wrong at any one)
    allx = [xe for xe in range(-306, 307) if xe not in xexps and xe not in far]
    for chunk in core.chunked(allx, 24):
        out.append({"xexps": chunk, "tier": tier})
    out.append({"zero": True, "tier": tier})
    return out


def read_back(s):
    """-> (stated value, stated error, unit) as Decimals, or None"""
    m = PAT.match(s)
    if not m:
        return None
    sign, ip, fp, dd, ex = m.groups()
    fp = fp or ""
    e = int(ex) if ex else 0
    unit = Decimal(10) ** (e - len(fp))
    val = Decimal(ip + ("." + fp if fp else "")) * (Decimal(10) ** e)
    if sign:
        val = -val
    return val, int(dd) * unit, unit, dd


def judge(x, err, s):
    """-> None or (symptom, text)"""
    r = read_back(s)
    if r is None:
        return ("unreadable", "%r" % s)
    val, serr, unit, dd = r
    dx, derr = Decimal(x), Decimal(err)
    slack = Decimal("1e-9")
    # the error to two significant digits
    e2 = derr.adjusted() - 1
    half = Decimal(5) * Decimal(10) ** (e2 - 1)
    if abs(serr - derr) > half * (1 + slack) + abs(derr) * slack:
        return ("error", "%r +- %r formatted as %r: stated error %s"
                % (x, err, s, serr))
    if len(dd) != 2:
        return ("digits", "%r +- %r formatted as %r: %d bracketed digits"
                % (x, err, s, len(dd)))
    # (the value may be off by a few units of float precision before it is
    # rounded - never by 1e-9 of itself)
    if abs(val - dx) > unit / 2 * (1 + slack) + abs(dx) * Decimal("2e-15"):
        return ("value", "%r +- %r formatted as %r: stated value %s is not x "
                "rounded to the last shown digit" % (x, err, s, val))
    return None


def run_task(task):
    from xyzpy.utils import format_number_with_error

    out = {"n": 0, "vio": {}, "sample": None, "shapes": set()}
    tier = task["tier"]
    if task.get("zero"):
        zexps = [(em, ee) for em in err_mantissas(True)
                 for ee in (range(-12, 13) if tier == "thorough"
                            else range(-4, 5))]
        zexps += [(em, ee) for em in err_mantissas(False)[::5]
                  for ee in (-300, -170, -101, -100, -99, -20, 20, 99, 100,
                             101, 250, 300)]
        for em, ee in zexps:
            err = float("%se%d" % (em, ee))
            for x in (0.0, -0.0):
                out["n"] += 1
                try:
                    s = format_number_with_error(x, err)
                except Exception as e:
                    out["vio"].setdefault("C20|zero|raised:" + type(e).__name__,
                                          ([x, err], repr(e)))
                    continue
                j = judge(x, err, s)
                if j:
                    out["vio"].setdefault("C20|zero|" + j[0], ([x, err], j[1]))
        out["sample"] = {"x": 0.0, "err": 1.5e-3,
                         "string": format_number_with_error(0.0, 1.5e-3)}
        out["shapes"] = len(out["shapes"])
        return out
    if "xexps" in task:
        ms = ("1", "1.2812412309", "4.999", "9.4", "9.9995")
        for xe in task["xexps"]:
            for off in (-12, -10, -3, -1, 0, 2):
                ee = xe + off
                if not -320 < ee < 305:
                    continue
                for em in ("1.00", "2.35", "7.9", "9.96"):
                    err = float("%se%d" % (em, ee))
                    for x in [sg * float("%se%d" % (m, xe)) for m in ms
                              for sg in (1, -1)]:
                        out["n"] += 1
                        try:
                            s = format_number_with_error(x, err)
                        except Exception as e:
                            out["vio"].setdefault(
                                "C20|allexp|raised:%s" % type(e).__name__,
                                ([x, err], repr(e)))
                            continue
                        j = judge(x, err, s)
                        if j:
                            out["vio"].setdefault(
                                "C20|allexp|%s|e%+d" % (j[0], xe // 25 * 25),
                                ([x, err], j[1]))
        out["sample"] = None
        out["shapes"] = 0
        return out
    xe, sign = task["xexp"], task["sign"]
    xs = [sign * float("%se%d" % (m, xe)) for m in x_mantissas()]
    for off in task["offs"]:
        dense = tier == "thorough" and -1 <= off <= 2 or tier == "quick" \
            and off in (0, 1)
        ems = err_mantissas(dense)
        if tier == "quick" and not dense:
            ems = ems[::2] if abs(off) <= 4 else ems[::6]
        if task.get("sparse"):
            ems = ems[::9]
        ee = xe + off
        if not -320 < ee < 305:
            continue
        for em in ems:
            err = float("%se%d" % (em, ee))
            for x in xs:
                out["n"] += 1
                try:
                    s = format_number_with_error(x, err)
                except Exception as e:
                    out["vio"].setdefault(
                        "C20|off%+d|raised:%s" % (off, type(e).__name__),
                        ([x, err], repr(e)))
                    continue
                j = judge(x, err, s)
                if j:
                    # one key per (offset, symptom, hidden-exponent form)
                    out["vio"].setdefault(
                        "C20|off%+d|%s|%s" % (off, j[0],
                                              "exp" if "e" in s else "plain"),
                        ([x, err], j[1]))
                out["shapes"].add(("e" in s, s.count("."), len(s) > 12))
    x0, e0 = xs[3], float("2.5e%d" % (xe - 1))
    out["sample"] = {"x": x0, "err": e0,
                     "string": format_number_with_error(x0, e0)}
    out["shapes"] = len(out["shapes"])
    return out


def run(ctx):
    ts = tasks(ctx.tier)
    ctx.rng.shuffle(ts)
    n = 0
    for out in ctx.map_unordered("run_task", ts):
        n += out["n"]
        for k, (c, w) in out["vio"].items():
            ctx.violation(k, w, {"x": c[0], "err": c[1]})
        if out["sample"]:
            ctx.sample(out["sample"], limit=5)
        ctx.outcomes["ok"] = ctx.outcomes.get("ok", 0) + out["n"] - len(out["vio"])
        if out["vio"]:
            ctx.outcomes["bad"] = ctx.outcomes.get("bad", 0) + len(out["vio"])
    ctx.evaluations = n
    # every lattice point is a distinct (x, err) pair, visited once
    ctx.nontrivial_count = n


def replay(case):
    from xyzpy.utils import format_number_with_error

    x, err = case["x"], case["err"]
    s = format_number_with_error(x, err)
    j = judge(x, err, s)
    print("format_number_with_error(%r, %r) = %r" % (x, err, s))
    return [("*", j[1])] if j else []
