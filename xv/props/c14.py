"""C14 - saving and loading a dataset gives the same dataset back."""
import os
import itertools

from xv import core, fn as xfn

ID = "C14"
LEVEL = "exploration"
RULE = (
    "datasets with 0-3 (thorough 0-4) dimensions of size 1-2, variable dtypes "
    "int / float / complex / bool / str, coordinate dtypes int / float / str, "
    "NaN patterns (none, one, all, NaN in complex parts), attribute values "
    "None / True / False / int / float / str, engines h5netcdf and joblib, "
    "file names with / without extension / in a dotted directory, chunks "
    "None / 1 / dict, and the operations save->load, save->save_merge->load, "
    "Harvester save -> new session load -> delete; non-trivial = >= 1 "
    "dimension and >= 2 values"
)
ASSUMPTIONS = [
    "netCDF4 and zarr are not importable in this image; h5netcdf and joblib "
    "are the engines available",
    "equality = xarray's identical() after the documented None/True/False -> "
    "string rewriting of attributes (netCDF engines only)",
]

DT = ["int", "float", "complex", "bool", "str"]
ATTRS = [None, {"n": None}, {"t": True, "f": False},
         {"i": 3, "x": 2.5, "s": "text"},
         {"zero": 0, "one": 1, "fone": 1.0, "fzero": 0.0, "t": True}]
NAMES = ["x", "x.h5", "x.dmp", os.path.join("dir.v2", "x"), "x_g0.5",
         "x[1]"]


def cases(tier, seed):
    maxd = 3 if tier == "quick" else 4
    j = 0
    for nd in range(0, maxd + 1):
        for sizes in itertools.product((1, 2), repeat=nd):
            for vdt, cdt, nanp in itertools.product(DT, ("int", "float", "str"),
                                                    ("none", "one", "all")):
                if nanp != "none" and vdt not in ("float", "complex"):
                    continue
                for eng in ("h5netcdf", "joblib"):
                    j += 1
                    ops = ["roundtrip", "merge", "harvester"]
                    hk = [list(sizes), vdt, cdt, nanp, eng]
                    if tier == "quick":
                        ops = [ops[core.pick(hk + ["op"], 3)]]
                    for op in ops:
                        # (secondary dimensions rotate by a hash of the case,
                        # so that none is in lock-step with another)
                        yield {"sizes": list(sizes), "vdt": vdt, "cdt": cdt,
                               "nan": nanp, "engine": eng,
                               "attrs": core.pick(hk + [op, "attrs"],
                                                  len(ATTRS)),
                               "name": NAMES[core.pick(hk + [op, "name"],
                                                       len(NAMES))],
                               "chunks": [None, 1, "dict"][
                                   core.pick(hk + [op, "chunks"], 3)],
                               "op": op,
                               "second": DT[core.pick(hk + [op, "2nd"], 5)]}


    # a coordinate stored in a narrow type (float32 / int32) that is merged
    # with values needing the wide one, through save_merge_ds
    for eng in ("h5netcdf", "joblib"):
        for cdt in ("float32", "int32", "int64", "str", "strvar"):
            for ni, name in enumerate(NAMES[:3]):
                # (the data is disjoint: every overwrite policy keeps all)
                yield {"op": "merge-widen", "engine": eng, "cdt": cdt,
                       "name": name, "sizes": [2], "vdt": "float",
                       "chunks": None, "ow": [None, True, False][ni]}


def worker_init():
    import xyzpy  # noqa


def make_ds(case):
    import numpy as np
    import xarray as xr

    sizes = case["sizes"]
    dims = ["abcd"[i] for i in range(len(sizes))]
    n = int(np.prod(sizes)) if sizes else 1

    def arr(dt, salt):
        base = np.arange(n) + salt
        if dt == "int":
            a = base.astype("int64")
        elif dt == "float":
            a = base * 0.5 + 0.25
        elif dt == "complex":
            a = base * 1.0 + 1j * (base + 0.5)
        elif dt == "bool":
            a = (base % 2 == 0)
        else:
            a = np.array(["s%d" % b for b in base])
        return a.reshape(sizes)

    v = arr(case["vdt"], 1)
    if case["nan"] == "one":
        v = v.copy()
        if case["vdt"] == "complex":
            v.flat[0] = complex(np.nan, 1.0)
        else:
            v.flat[0] = np.nan
    elif case["nan"] == "all":
        v = np.full(sizes, np.nan, dtype=v.dtype)
    coords = {}
    for d, s in zip(dims, sizes):
        if case["cdt"] == "int":
            coords[d] = [3, 1][:s]
        elif case["cdt"] == "float":
            coords[d] = [0.5, -1.5][:s]
        else:
            coords[d] = ["q", "p"][:s]
    ds = xr.Dataset({"v": (dims, v), "w": (dims[:1], arr(case["second"], 5)
                                         .reshape(-1)[: (sizes[0] if sizes
                                                          else 1)]
                                         if dims else arr(case["second"], 5)
                                         .reshape(()))},
                    coords=coords)
    if len(dims) >= 2:
        # (a variable that stores its axes in another order than the
        # dataset lists its dimensions)
        ds["vt"] = ds["v"].transpose(*dims[::-1]) if case["vdt"] != "str" \
            else ds["v"].transpose(*dims[::-1]).copy()
    at = ATTRS[case["attrs"]]
    if at:
        ds.attrs.update(at)
    return ds


def expected_attrs(attrs, engine):
    if engine == "joblib":
        return dict(attrs)
    out = {}
    for k, v in attrs.items():
        if v is None:
            v = "None"
        elif v is True:
            v = "True"
        elif v is False:
            v = "False"
        out[k] = v
    return out


def same(loaded, orig, engine):
    import numpy as np

    want = orig.copy(deep=True)
    want.attrs = expected_attrs(orig.attrs, engine)
    got = loaded
    if set(got.data_vars) != set(want.data_vars):
        return "variables %r vs %r" % (list(got.data_vars), list(want.data_vars))
    if dict(got.sizes) != dict(want.sizes):
        return "sizes %r vs %r" % (dict(got.sizes), dict(want.sizes))
    for c in want.coords:
        if c not in got.coords or got[c].values.tolist() != want[c].values.tolist():
            return "coordinate %r" % c
    for v in want.data_vars:
        a, b = got[v].values, want[v].values
        if got[v].dims != want[v].dims:
            return "dims of %r" % v
        if b.dtype.kind in "fc":
            ok = a.shape == b.shape and np.array_equal(a, b, equal_nan=True)
            ok = ok and a.dtype.kind == b.dtype.kind
        elif b.dtype.kind == "U":
            ok = a.tolist() == b.tolist()
        else:
            ok = a.dtype.kind == b.dtype.kind and np.array_equal(a, b)
        if not ok:
            return "values of %r: %r (%s) vs %r (%s)" % (
                v, a.tolist(), a.dtype, b.tolist(), b.dtype)
    ga = {k: (v.item() if hasattr(v, "item") else v)
          for k, v in got.attrs.items()}
    if ga != want.attrs:
        return "attrs %r vs %r" % (ga, want.attrs)
    return None


def check_widen(case):
    import numpy as np
    import xarray as xr
    import xyzpy as xyz

    d = core.fresh_dir("c14")
    eng = case["engine"]
    name = os.path.join(d, case["name"])
    cdt = case["cdt"]
    vio = []

    def key(sym):
        return "C14|%s|merge-widen|%s" % (eng, sym)

    if cdt in ("str", "strvar"):
        # short labels stored first, a longer one merged in: as coordinate
        # labels ("str") or as the values of a variable ("strvar")
        if cdt == "str":
            ds1 = xr.Dataset({"v": (("a",), np.array([10.0, 20.0]))},
                             coords={"a": ["aa", "bb"]})
            ds2 = xr.Dataset({"v": (("a",), np.array([30.0]))},
                             coords={"a": ["cccc"]})
            want = {"aa": 10.0, "bb": 20.0, "cccc": 30.0}
        else:
            ds1 = xr.Dataset({"v": (("a",), np.array(["p", "q"]))},
                             coords={"a": [1, 2]})
            ds2 = xr.Dataset({"v": (("a",), np.array(["long"]))},
                             coords={"a": [3]})
            want = {1: "p", 2: "q", 3: "long"}
        try:
            xyz.save_ds(ds1, name, engine=eng)
            xyz.save_merge_ds(ds2, name, engine=eng, overwrite=case.get("ow"))
            back = xyz.load_ds(name, engine=eng)
            got = dict(zip(back["a"].values.tolist(),
                           back["v"].values.tolist()))
            if got != want:
                vio.append((key("strings"), "short strings stored, a longer "
                            "one merged in (%s): loaded %r, expected %r"
                            % (cdt, got, want)))
        except Exception as e:
            vio.append((key("raised:" + type(e).__name__), repr(e)))
        return {"nontrivial": True, "outcome": "merge-widen:%s" % (
            "ok" if not vio else "bad"), "violations": vio}
    a1 = np.array([1, 2], dtype=cdt)
    # (0.1 has no exact float32 form; 2**40 does not fit an int32)
    a2 = np.array([0.1, 2.25]) if cdt != "int32" else np.array(
        [2 ** 40, 7], dtype="int64")
    ds1 = xr.Dataset({"v": (("a",), np.array([10.0, 20.0]))},
                     coords={"a": a1})
    ds2 = xr.Dataset({"v": (("a",), np.array([30.0, 40.0]))},
                     coords={"a": a2})
    try:
        xyz.save_ds(ds1, name, engine=eng)
        # (through a loaded copy, as a later session would)
        xyz.save_merge_ds(ds2, name, engine=eng, overwrite=case.get("ow"))
        back = xyz.load_ds(name, engine=eng)
        want = {float(k_): v_ for k_, v_ in zip(
            list(a1.tolist()) + list(a2.tolist()), [10.0, 20.0, 30.0, 40.0])}
        got = {float(k_): float(v_) for k_, v_ in zip(
            back["a"].values.tolist(), back["v"].values.tolist())}
        if got != want:
            vio.append((key("values"), "coordinate stored as %s merged with "
                        "%r: loaded {label: value} %r, expected %r"
                        % (cdt, a2.tolist(), got, want)))
    except Exception as e:
        vio.append((key("raised:" + type(e).__name__), repr(e)))
    return {"nontrivial": True, "outcome": "merge-widen:%s" % (
        "ok" if not vio else "bad"), "violations": vio}


def check_case(case):
    import numpy as np
    import xarray as xr
    import xyzpy as xyz

    d = core.fresh_dir("c14")
    eng = case["engine"]
    name = os.path.join(d, case["name"])
    os.makedirs(os.path.dirname(name), exist_ok=True)
    if core.pick([case["name"], case["sizes"], case["vdt"], case["op"],
                  "earlier"], 2) == 0:
        # earlier in the same process another dataset was saved with writer
        # options of its own; they belong to that call only
        pre = xr.Dataset({"v": (("a",), [0.5, 1.5]), "w": (("a",), [1, 2])})
        pname = os.path.join(d, "earlier-preview")
        if eng == "h5netcdf":
            xyz.save_ds(pre, pname, engine=eng,
                        encoding={"v": {"dtype": "float32"},
                                  "w": {"dtype": "int8"}})
        else:
            xyz.save_ds(pre, pname, engine=eng, compress=3)
        # (wherever a tree put it: this call is not the one judged)
        for dd in (d, os.getcwd()):
            for x in os.listdir(dd):
                if x.startswith("earlier-preview"):
                    os.remove(os.path.join(dd, x))
    if case["op"] == "merge-widen":
        return check_widen(case)
    ds = make_ds(case)
    orig = ds.copy(deep=True)
    vio = []
    ext = {"h5netcdf": ".h5", "joblib": ".dmp"}[eng]
    base = os.path.basename(case["name"])
    dname = os.path.dirname(name)
    if core.pick([case["name"], case["sizes"], case["vdt"], case["op"],
                  "bare"], 4) == 0:
        # the user sits in the directory and gives the bare name
        os.chdir(dname)
        name = base
    want_file = base if (".h5" in base or ".dmp" in base) else base + ext
    chunks = case["chunks"]
    if chunks == "dict":
        chunks = {"a": 1} if case["sizes"] else None

    def key(sym):
        return "C14|%s|%s|%s" % (eng, case["op"], sym)

    decoy = []

    def listing():
        return sorted(x for x in os.listdir(dname)
                      if x not in decoy)

    try:
        if case["op"] == "roundtrip":
            if want_file != base and core.pick(
                    [case["name"], case["sizes"], case["vdt"], "decoy"], 2):
                # another, older dataset lies under exactly the bare name
                # (the name given always means name + extension)
                old = xr.Dataset({"other": (("q",), [7.0, 8.0, 9.0])})
                tmpn = os.path.join(dname, "decoy" + ext)
                xyz.save_ds(old, tmpn, engine=eng)
                os.rename(tmpn, name)
                decoy.append(base)
            xyz.save_ds(ds, name, engine=eng)
            if any(ds[v_].dims != orig[v_].dims for v_ in orig.data_vars):
                vio.append((key("caller-dataset-changed"), "saving changed "
                            "the dimension order of the caller's variables"))
            if listing() != [want_file]:
                vio.append((key("file-name"), "saving %r wrote %r, expected %r"
                            % (case["name"], listing(), want_file)))
            back = xyz.load_ds(name, engine=eng)
            why = same(back, orig, eng)
            if why:
                vio.append((key("roundtrip"), "%s %s: %s" % (
                    case["vdt"], case["sizes"], why)))
            # another dataset (same shapes, other values) saved under the
            # same name afterwards: the dataset loaded before is a value and
            # keeps its contents, a new load gives the new one
            ds2 = orig.copy(deep=True)
            for v_ in ds2.data_vars:
                if ds2[v_].dtype.kind in "fc":
                    ds2[v_] = ds2[v_] + 1.0
                elif ds2[v_].dtype.kind in "iu":
                    ds2[v_] = ds2[v_] + 1
            orig2 = ds2.copy(deep=True)
            xyz.save_ds(ds2, name, engine=eng)
            why = same(back, orig, eng)
            if why:
                vio.append((key("loaded-changed"), "a dataset loaded earlier "
                            "changed when another one was saved under the "
                            "same name: %s" % why))
            back2 = xyz.load_ds(name, engine=eng)
            why = same(back2, orig2, eng)
            if why:
                vio.append((key("second-roundtrip"), "second save under the "
                            "same name: %s" % why))
            if listing() != [want_file]:
                vio.append((key("file-name"), "saving twice left %r"
                            % listing()))
            if chunks is not None and eng != "joblib":
                xyz.save_ds(orig.copy(deep=True), name, engine=eng)
                lazy = xyz.load_ds(name, engine=eng, chunks=chunks)
                why = same(lazy.load(), orig, eng)
                lazy.close()
                if why:
                    vio.append((key("lazy"), "chunks=%r: %s" % (chunks, why)))
        elif case["op"] == "merge":
            # a second, disjoint variable is merged into the saved file
            xyz.save_ds(ds, name, engine=eng)
            extra = xr.Dataset({"z": ((), 7.5)})
            xyz.save_merge_ds(extra, name, engine=eng)
            if listing() != [want_file]:
                vio.append((key("file-name"), "save + save_merge of %r left "
                            "%r, expected only %r" % (case["name"], listing(),
                                                      want_file)))
            back = xyz.load_ds(name, engine=eng)
            if "z" not in back or float(back["z"]) != 7.5:
                vio.append((key("merge-new"), "merged variable missing"))
            else:
                # (merging does not carry dataset attributes: compare data)
                b2 = back.drop_vars("z")
                b2.attrs = orig.attrs if eng == "joblib" else \
                    expected_attrs(orig.attrs, eng)
                o2 = orig.copy(deep=True)
                why = same(b2, o2, eng)
                if why:
                    vio.append((key("merge-old"), "data saved before the "
                                "merge changed: %s" % why))
        else:
            f = xfn.make_fn(["a"], kind="num", name="f14")
            if case["chunks"] == 1:
                # the engine is given per call, the harvesters' own default
                # is the other one
                other = "joblib" if eng == "h5netcdf" else "h5netcdf"
                if core.pick([case["name"], case["sizes"], case["vdt"],
                              "pc"], 2):
                    # (saved by merging the dataset in, engine per call)
                    h = xyz.Harvester(xyz.Runner(f, var_names="out"),
                                      data_name=name, engine=other)
                    h.add_ds(ds, engine=eng)
                else:
                    h = xyz.Harvester(xyz.Runner(f, var_names="out"),
                                      data_name=name, engine=other,
                                      full_ds=ds)
                    h.save_full_ds(engine=eng)
                if listing() != [want_file]:
                    vio.append((key("file-name"), "Harvester saved %r with a "
                                "per-call engine as %r, expected %r" % (
                                    case["name"], listing(), want_file)))
                h2 = xyz.Harvester(xyz.Runner(f, var_names="out"),
                                   data_name=name, engine=other)
                h2.load_full_ds(engine=eng)
                if h2._full_ds is None:
                    vio.append((key("new-session"), "a new session given the "
                                "engine per call finds nothing"))
                else:
                    why = same(h2._full_ds, orig, eng)
                    if why:
                        vio.append((key("new-session"), "a new session given "
                                    "the engine per call loads: %s" % why))
                return {"nontrivial": len(case["sizes"]) >= 1 and
                        int(np.prod(case["sizes"])) >= 2,
                        "outcome": "%s:%s" % (case["op"], "ok" if not vio
                                              else "bad"), "violations": vio}
            if core.pick([case["name"], case["sizes"], case["vdt"], "path"], 2):
                # (saved by merging a dataset in, as every harvest does)
                h = xyz.Harvester(xyz.Runner(f, var_names="out"),
                                  data_name=name, engine=eng)
                h.add_ds(ds)
            else:
                h = xyz.Harvester(xyz.Runner(f, var_names="out"),
                                  data_name=name, engine=eng, full_ds=ds)
                h.save_full_ds()
            if listing() != [want_file]:
                vio.append((key("file-name"), "Harvester saved %r as %r, "
                            "expected %r" % (case["name"], listing(), want_file)))
            h2 = xyz.Harvester(xyz.Runner(f, var_names="out"), data_name=name,
                               engine=eng, chunks=None)
            why = same(h2.full_ds, orig, eng)
            if why:
                vio.append((key("new-session"), "a new session loads: %s" % why))
            # (another dataset whose name begins like this one lies next to
            # it: deleting is about the named file only)
            l0 = listing()
            xyz.save_ds(xr.Dataset({"other": (("q",), [7.0, 8.0])}),
                        name + "_long", engine=eng)
            decoy.extend(x for x in listing() if x not in l0)
            if core.pick([case["name"], case["sizes"], case["vdt"], "del"], 2):
                # (deleted by yet another session that never loaded it)
                xyz.Harvester(xyz.Runner(f, var_names="out"), data_name=name,
                              engine=eng).delete_ds()
            else:
                h2.delete_ds()
            if listing():
                vio.append((key("delete"), "delete_ds left %r" % listing()))
            gone = [x for x in decoy if x not in os.listdir(dname)]
            if gone:
                vio.append((key("delete-other"), "delete_ds of %r also "
                            "removed %r" % (case["name"], gone)))
    except core.HarnessError:
        raise
    except Exception as e:
        vio.append((key("raised:" + type(e).__name__),
                    "%s %s name=%r: %r" % (case["vdt"], case["sizes"],
                                           case["name"], e)))
    return {"nontrivial": len(case["sizes"]) >= 1 and
            int(np.prod(case["sizes"])) >= 2,
            "outcome": "%s:%s" % (case["op"], "ok" if not vio else "bad"),
            "violations": vio}
