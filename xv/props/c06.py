"""C06 - a crop attached to a Runner, Harvester or Sampler reaps what a direct
run gives."""
import os
import itertools

from xv import core, cmp, fn as xfn
from xv.props.c07 import build_inputs

ID = "C06"
LEVEL = "exploration"
RULE = (
    "runner descriptions (scalar, two variables, array with var_coords, "
    "internal dimension named by a constant, constants + resources + attrs, "
    "var_names=None with Dataset results) x grid / case / mixed inputs with "
    "N <= 8 x farmer kind (Runner, Runner->DataFrame, Harvester with every "
    "overwrite policy over disjoint / overlapping existing data and both "
    "engines, Sampler) x shuffle x batch request x which of grow / reap use a "
    "Crop rebuilt from disk x (harvesters) another session harvesting an "
    "unrelated region into the same file between sow and reap x an earlier "
    "complete round (other values, shuffled) through the same Crop object x "
    "shuffle given to the constructor; compared with the direct call on a twin farmer; "
    "non-trivial = >= 2 settings and >= 2 batches"
)
ASSUMPTIONS = [
    "datasets are compared by label: same variables, dims (as sets per "
    "variable, values compared after transposition), coordinates, values and "
    "attrs-as-dict; DataFrames as row multisets over equal column sets",
    "Sampler draws are scripted callables, so the twin's direct run draws the "
    "same samples",
    "reload = Crop(name=..., parent_dir=...) in-process (farmer un-pickled, "
    "function re-attached); real fresh processes are covered by C04's "
    "conformance pass",
]

DESCS = ["scalar", "two", "array", "constdim", "attrs", "xobj", "falsy"]


def cases(tier, seed):
    farmers = ["runner", "runner-df", "harv-jl", "harv-h5", "sampler"]
    inputs = [("grid", 6), ("cases", 4), ("mix", 6), ("grid", 8), ("cases", 1),
              ("grid", 1), ("mix2", 12), ("casesdup", 3)]
    reqs = [("batchsize", 2), ("num_batches", 3), ("default", None),
            ("batchsize", 5)]
    for desc, far, (kind, n), (mode, req), shuffle, rl in itertools.product(
            DESCS, farmers, inputs, reqs, (False, True, 3), range(4)):
        if far in ("runner-df", "sampler") and desc in ("array", "constdim",
                                                        "xobj"):
            continue  # DataFrames hold scalars only
        if far == "sampler" and (kind != "grid" or shuffle):
            continue
        h = int(core.jhash([desc, far, kind, n, mode, req, shuffle, rl]), 16) % 7
        if tier == "quick" and h not in (0, 3):
            continue
        pols = [None]
        if far.startswith("harv"):
            pols = [(None, "disjoint"), (None, "equal"), (True, "conflict"),
                    (False, "conflict"), (None, None)]
            if tier == "quick":
                pols = [pols[(n + rl + len(desc)) % 5]]
        for pol in pols:
            yield {"desc": desc, "farmer": far, "kind": kind, "n": n,
                   "mode": mode, "req": req, "shuffle": shuffle, "reload": rl,
                   "policy": pol}
            if kind in ("mix2", "casesdup"):
                continue
            if pol in (None, (None, None), (None, "disjoint")) and (
                    tier == "thorough" or h == 3):
                yield {"desc": desc, "farmer": far, "kind": kind, "n": n,
                       "mode": mode, "req": req, "shuffle": shuffle,
                       "reload": rl, "policy": pol,
                       "preround": 1 + core.pick(
                           [desc, far, kind, n, mode, req, shuffle, rl], 3)
                       if far != "sampler" else 1}
            if far != "sampler" and kind != "cases" and rl % 2 == 0 and (
                    tier == "thorough" or h == 0):
                yield {"desc": desc, "farmer": far, "kind": kind, "n": n,
                       "mode": mode, "req": req, "shuffle": shuffle,
                       "reload": rl, "policy": pol, "ctor": True}
            if far.startswith("harv") and (tier == "thorough" or h == 0):
                yield {"desc": desc, "farmer": far, "kind": kind, "n": n,
                       "mode": mode, "req": req, "shuffle": shuffle,
                       "reload": rl, "policy": pol, "late": True}
            if desc in ("attrs", "falsy") and far != "sampler" and pol in (
                    None, (None, None)):
                # an extra constant given for this run only (overrides the
                # runner's stored constant)
                yield {"desc": desc, "farmer": far, "kind": kind, "n": n,
                       "mode": mode, "req": req, "shuffle": shuffle,
                       "reload": rl, "policy": pol,
                       # (an override by a falsy value counts as well)
                       "sowconst": {"k": 5 if (n + rl) % 2 else 0}}
                # ... given for an earlier, complete round through the same
                # Crop object only: this round runs with the stored constant
                yield {"desc": desc, "farmer": far, "kind": kind, "n": n,
                       "mode": mode, "req": req, "shuffle": shuffle,
                       "reload": rl, "policy": pol, "preround": 1,
                       "preconst": {"k": 9}}


    # crops of 10+ batches (two-digit ids), also reaped with wait=True
    for far in farmers:
        for desc in ("scalar", "attrs"):
            for rl in (0, 2, 3):
                for wait in (False, True):
                    pol = (None, None) if far.startswith("harv") else None
                    yield {"desc": desc, "farmer": far, "kind": "grid",
                           "n": 12, "mode": "batchsize", "req": 1,
                           "shuffle": 3 if rl else False, "reload": rl,
                           "policy": pol, "wait": wait}


def worker_init():
    import xyzpy  # noqa


_DRAW = '''
def draw(name, choices):
    def _d():
        import builtins
        c = getattr(builtins, "_xv_draws", None)
        if c is None:
            c = builtins._xv_draws = {}
        i = c.get(name, 0)
        c[name] = i + 1
        return choices[(i * 2 + 1) % len(choices)]
    return _d
'''
_ns = {"__name__": "__main__"}
exec(_DRAW, _ns)


def describe(desc, argnames):
    """-> (fn kind, Runner kwargs, extra fn args)"""
    if desc == "scalar":
        return "num", dict(var_names="out"), []
    if desc == "two":
        return "tuple2", dict(var_names=["x", "y"]), []
    if desc == "array":
        return "array", dict(var_names="out", var_dims={"out": ["t"]},
                             var_coords={"t": [10, 20, 30]}), []
    if desc == "constdim":
        return "array", dict(var_names="out", var_dims={"out": ["t"]},
                             constants={"t": [0.5, 1.5, 2.5]}), ["t"]
    if desc == "attrs":
        return "num", dict(var_names="out", constants={"k": 7},
                           resources={"r": 9},
                           attrs={"note": "hello", "n": 3}), ["k", "r"]
    if desc == "falsy":
        # constants, resources and attributes that are falsy values
        return "num", dict(var_names="out", constants={"k": 0, "flag": False},
                           resources={"r": 0},
                           attrs={"note": "", "n": 0}), ["flag", "k", "r"]
    if desc == "xobj":
        return "dataset", dict(var_names=None), []
    raise ValueError(desc)


def same_ds(got, want):
    import numpy as np

    if set(got.data_vars) != set(want.data_vars):
        return "variables %r vs %r" % (sorted(got.data_vars),
                                       sorted(want.data_vars))
    if set(got.dims) != set(want.dims):
        return "dims %r vs %r" % (sorted(got.dims), sorted(want.dims))
    for c in want.coords:
        if c not in got.coords:
            return "coordinate %r missing" % c
        if not np.array_equal(np.sort(got[c].values), np.sort(want[c].values)):
            return "coordinate %r: %r vs %r" % (c, got[c].values,
                                                want[c].values)
    for c in got.coords:
        if c not in want.coords:
            return "unexpected coordinate %r" % c
    g = got.reindex({d: want[d].values for d in want.dims
                     if d in want.coords})
    for v in want.data_vars:
        if set(g[v].dims) != set(want[v].dims):
            return "%s dims %r vs %r" % (v, g[v].dims, want[v].dims)
        a = g[v].transpose(*want[v].dims).values
        b = want[v].values
        if a.shape != b.shape or not np.array_equal(a, b, equal_nan=(
                a.dtype.kind == "f" and b.dtype.kind == "f")):
            if not _obj_equal(a, b):
                return "values of %r differ" % v
    ga = {k: cmp._numnorm(v) if not hasattr(v, "tolist") else v.tolist()
          for k, v in got.attrs.items()}
    wa = {k: cmp._numnorm(v) if not hasattr(v, "tolist") else v.tolist()
          for k, v in want.attrs.items()}
    if ga != wa:
        return "attrs %r vs %r" % (ga, wa)
    return None


def _obj_equal(a, b):
    import numpy as np

    if a.shape != b.shape:
        return False
    for x, y in zip(a.ravel(), b.ravel()):
        xn = x is None or (isinstance(x, float) and np.isnan(x))
        yn = y is None or (isinstance(y, float) and np.isnan(y))
        if xn and yn:
            continue
        if x != y:
            return False
    return True


def same_df(got, want):
    gc, wc = sorted(got.columns), sorted(want.columns)
    if gc != wc:
        return "columns %r vs %r" % (gc, wc)
    g = sorted(cmp.row_key(r) for r in cmp.df_rows(got))
    w = sorted(cmp.row_key(r) for r in cmp.df_rows(want))
    if g != w:
        return "rows differ: %r vs %r" % (g[:2], w[:2])
    return None


def check_case(case):
    import builtins
    import xyzpy as xyz
    from xyzpy.gen.cropping import grow

    desc, far, kind, n = case["desc"], case["farmer"], case["kind"], case["n"]
    if kind == "mix2":
        # a case list next to a sub-grid over two arguments that are not in
        # alphabetical order, sown through sow_cases
        combos, fn_args, cs = ([["z", [1, 2, 3]], ["c", [10, 20]]],
                               ["a", "b"], [[3, 7], [1, 2]])
    elif kind == "casesdup":
        # a case list that names the same case twice
        combos, fn_args, cs = None, ["a", "b"], [[3, 7], [1, 2], [3, 7]]
    else:
        combos, fn_args, cs = build_inputs(n, kind)
    argnames = list(fn_args or []) + [a for a, _ in (combos or [])]
    fkind, rkw, extra = describe(desc, argnames)
    defaults = {e: None for e in extra}
    f = xfn.make_fn(argnames + extra, kind=fkind, name="f06", defaults=defaults)
    f1 = xfn.make_fn(argnames + extra, kind=fkind, name="f06", version=1,
                     defaults=defaults)
    # (every other case in a plain directory: a tree that globs without
    # escaping is blind - or waits for ever - in the other kind)
    d = core.fresh_dir("c06.results[1].xyz-batch-1" if core.pick(
        [case.get("farmer"), case.get("n"), case.get("mode"), case.get("req"),
         "dir"], 2) and not case.get("wait") else "c06")
    dt = core.fresh_dir("c06twin")
    vio = []

    def key(sym):
        return "C06|%s|%s|%s|%s" % (far, desc, case["kind"], sym)

    dcombos = {a: v for a, v in combos} if combos else None
    dcases = [tuple(c) for c in cs] if cs else None

    def make_farmer(root, f=f, stale=False):
        import copy

        # (each farmer gets private copies of the description)
        rk = copy.deepcopy(rkw)
        if stale:
            # (an earlier session's description: an attribute more)
            rk["attrs"] = dict(rk.get("attrs") or {}, stale="yes")
        r = xyz.Runner(f, fn_args=argnames if far != "sampler" else None,
                       **rk)
        if far.startswith("harv"):
            eng = "joblib" if far == "harv-jl" else "h5netcdf"
            return xyz.Harvester(r, data_name=os.path.join(root, "data"),
                                 engine=eng)
        if far == "sampler":
            return xyz.Sampler(
                r, data_name=os.path.join(root, "table.pkl"),
                # (choices listed in another order than the signature)
                default_combos={a: _ns["draw"](a, list(v))
                                for a, v in list(combos)[::-1]})
        return r

    def direct(farmer, overwrite=None, dcombos=dcombos, dcases=dcases,
               consts=None):
        if far == "sampler":
            return farmer.sample_combos(n, verbosity=0)
        kw = dict(verbosity=0)
        if case.get("sowconst"):
            kw["constants"] = dict(case["sowconst"])
        if consts:
            kw["constants"] = dict(consts)
        if far == "runner-df":
            kw["to_df"] = True
        if far.startswith("harv"):
            kw["overwrite"] = overwrite
            if kind == "grid":
                farmer.harvest_combos(dcombos, **kw)
            else:
                farmer.harvest_cases(dcases, fn_args=fn_args, combos=(
                    tuple(dcombos.items()) if dcombos else ()), **kw)
            return farmer.last_ds
        if kind == "grid":
            return farmer.run_combos(dcombos, **kw)
        return farmer.run_cases(dcases, fn_args=fn_args, combos=(
            tuple(dcombos.items()) if dcombos else ()), **kw)

    def seed_existing(farmer, how):
        """pre-existing harvested data"""
        if how is None:
            return
        first = dcases[:1] if dcases else None
        sub = ({a: v[:1] if i == 0 else v for i, (a, v) in
                enumerate(dcombos.items())} if dcombos else None)
        fn_keep = farmer.fn
        if how == "conflict":
            farmer.fn = f1
        if how in ("disjoint", "late"):
            # same shape of region, other coordinate values
            off = 100 if how == "disjoint" else 200
            if kind == "grid":
                a0 = list(dcombos)[0]
                sub = dict(dcombos)
                sub[a0] = [x + off for x in dcombos[a0]][:1]
                first = None
            else:
                first = [tuple(x + off for x in dcases[0])]
        kw = dict(verbosity=0)
        if kind == "grid":
            farmer.harvest_combos(sub, **kw)
        else:
            farmer.harvest_cases(first, fn_args=fn_args, combos=(
                tuple(sub.items()) if sub else ()), **kw)
        farmer.fn = fn_keep

    pol, how = case["policy"] if case["policy"] else (None, None)
    farmer, twin = make_farmer(d), make_farmer(dt)
    if far.startswith("harv"):
        seed_existing(farmer, how)
        seed_existing(twin, how)
    # an earlier complete round (other values, shuffled) through the very
    # same Crop object; the reference does the same round directly
    pre = case.get("preround")
    pcombos, pcases = dcombos, dcases
    if pre in (1, 2):
        if kind == "grid":
            a0 = list(dcombos)[0]
            pcombos = dict(dcombos)
            pcombos[a0] = [x + 50 for x in dcombos[a0]]
        else:
            pcases = [tuple(x + 50 for x in c) for c in dcases]
        builtins._xv_draws = {}
        if pre == 1:
            direct(twin, dcombos=pcombos, dcases=pcases,
                   consts=case.get("preconst"))
        # (pre == 2: the earlier round is sown and grown but never reaped -
        # its results are still lying there when the crop is sown again)
        twin_draws = dict(builtins._xv_draws)
    late = far.startswith("harv") and case.get("late")
    if late:
        # (the reference goes through one object throughout)
        seed_existing(twin, "late")
    # ---- twin: the direct run ---------------------------------------------
    builtins._xv_draws = dict(twin_draws) if pre in (1, 2) else {}
    try:
        want = direct(twin, overwrite=pol)
        direct_err = None
    except Exception as e:
        want, direct_err = None, e
    # ---- crop --------------------------------------------------------------
    builtins._xv_draws = {}
    kws = {}
    if case["mode"] != "default":
        kws[case["mode"]] = case["req"]
    B = 0
    rcrop = None
    try:
        if pre == 3:
            # another session sowed and grew - but never reaped - the same
            # sweep with an earlier version of the function, under the same
            # crop name; the function is then corrected and the crop sown
            # again from scratch
            crop0 = make_farmer(d, f=f1, stale=True).Crop(
                name="k", parent_dir=d, **kws)
            if kind == "grid":
                crop0.sow_combos(dcombos, verbosity=0)
            elif kind == "mix":
                crop0.sow_combos(dcombos, cases=[dict(zip(fn_args, c))
                                                 for c in dcases], verbosity=0)
            else:
                crop0.sow_cases(fn_args, dcases, verbosity=0)
            crop0.grow_missing(verbosity=0)
            del crop0
        if case.get("ctor"):
            # (a shuffle given to the constructor, a plain sow afterwards)
            crop = xyz.Crop(farmer=farmer, name="k", parent_dir=d, shuffle=5,
                            **kws)
        else:
            crop = farmer.Crop(name="k", parent_dir=d, **kws)
        if pre in (1, 2):
            if far == "sampler":
                crop.sow_samples(n, verbosity=0)
            elif kind == "grid":
                crop.sow_combos(pcombos, shuffle=True, verbosity=0,
                                constants=case.get("preconst"))
            elif kind == "mix":
                crop.sow_combos(pcombos, cases=[dict(zip(fn_args, c))
                                                for c in pcases],
                                shuffle=True, verbosity=0,
                                constants=case.get("preconst"))
            else:
                crop.sow_cases(fn_args, pcases, verbosity=0,
                               constants=case.get("preconst"))
            crop.grow_missing(verbosity=0)
            if pre == 2:
                pass
            elif far == "runner-df":
                crop.reap_runner(crop.farmer, to_df=True)
            else:
                crop.reap()
        if far == "sampler":
            crop.sow_samples(n, verbosity=0)
        elif kind == "grid":
            crop.sow_combos(dcombos, shuffle=case["shuffle"], verbosity=0,
                            constants=case.get("sowconst"))
        elif kind == "mix":
            crop.sow_combos(dcombos,
                            cases=[dict(zip(fn_args, c)) for c in dcases],
                            shuffle=case["shuffle"], verbosity=0,
                            constants=case.get("sowconst"))
        elif kind == "mix2":
            crop.sow_cases(fn_args, dcases, verbosity=0,
                           combos=tuple((a, list(v))
                                        for a, v in dcombos.items()),
                           constants=case.get("sowconst"))
        else:
            crop.sow_cases(fn_args, dcases, verbosity=0,
                           constants=case.get("sowconst"))
        B = crop.num_batches
        rl = case["reload"]
        if late:
            # another session harvests an unrelated region into the same file
            # while the crop is out
            seed_existing(make_farmer(d), "late")
        gcrop = xyz.Crop(name="k", parent_dir=d) if rl in (1, 3) else crop
        for i in range(B, 0, -1):
            grow(i, crop=gcrop, verbosity=0)
        rcrop = xyz.Crop(name="k", parent_dir=d) if rl in (2, 3) else crop
        if rl in (2, 3) and core.pick(
                [far, n, case["mode"], case["req"], case["shuffle"],
                 "via-farmer"], 2) == 0:
            # (a new session: the farmer built again from its description,
            # the sown crop opened through it - nothing is sown again)
            farmer = make_farmer(d)
            rcrop = farmer.Crop(name="k", parent_dir=d)
        wkw = {"wait": True} if case.get("wait") else {}
        if far == "runner-df":
            got = rcrop.reap_runner(rcrop.farmer, to_df=True, **wkw)
        elif far.startswith("harv"):
            got = rcrop.reap(overwrite=pol, **wkw)
        else:
            got = rcrop.reap(**wkw)
        err = None
    except Exception as e:
        got, err = None, e
    nontrivial = n >= 2 and B >= 2
    if direct_err is not None or err is not None:
        if (direct_err is None) != (err is None) or (
                type(direct_err) is not type(err)):
            vio.append((key("error-mismatch"),
                        "direct run: %r; crop reap: %r" % (direct_err, err)))
        return {"nontrivial": nontrivial, "outcome": "both-raise",
                "violations": vio}
    # ---- compare -----------------------------------------------------------
    if far in ("runner-df", "sampler"):
        why = same_df(got, want)
    else:
        why = same_ds(got, want)
    if why:
        vio.append((key("result"), "reaped vs direct: %s" % why))
    rfar = rcrop.farmer
    last = (rfar.last_df if far == "sampler" else
            getattr(rfar.runner if far.startswith("harv") else rfar,
                    "_last_df", None)
            if far == "runner-df" else rfar.last_ds)
    if last is not got:
        vio.append((key("last"), "the farmer's last result is not the reaped "
                    "object"))
    if far.startswith("harv"):
        eng = "joblib" if far == "harv-jl" else "h5netcdf"
        a = cmp.ds_to_dict(xyz.load_ds(os.path.join(d, "data"), engine=eng))
        b = cmp.ds_to_dict(xyz.load_ds(os.path.join(dt, "data"), engine=eng))
        if a != b:
            vio.append((key("datafile"), "on-disk dataset differs from the "
                        "direct harvest's (%d vs %d cells)" % (len(a), len(b))))
        fa = cmp.ds_to_dict(rfar.full_ds)
        if fa != b:
            vio.append((key("full_ds"), "harvester.full_ds differs from the "
                        "direct harvest's"))
    if far == "sampler":
        a = sorted(cmp.row_key(r) for r in cmp.df_rows(
            xyz.manage.load_df(os.path.join(d, "table.pkl"))))
        b = sorted(cmp.row_key(r) for r in cmp.df_rows(
            xyz.manage.load_df(os.path.join(dt, "table.pkl"))))
        if a != b:
            vio.append((key("datafile"), "on-disk table differs from the "
                        "direct sampling's"))
    return {"nontrivial": nontrivial,
            "outcome": "%s/%s" % (far, "ok" if not vio else "diff"),
            "violations": vio}
