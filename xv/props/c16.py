"""C16 - generated cluster scripts and the grow CLI grow exactly the intended
batches.

Every generated script is checked with ``bash -n`` and then *executed* with
bash once per array index (stub scheduler variables); the launcher is a stub
that captures the embedded Python program after shell substitution; the
captured program must compile and is run in-process, its effect on the crop
compared with the intended set of batches.
"""
import os
import re
import sys
import stat
import itertools
import subprocess

from xv import core, fsseam, cmp, fn as xfn

ID = "C16"
LEVEL = "exploration"
RULE = (
    "scheduler in {sge, pbs, slurm (and upper case)} x mode in {array, "
    "single} x crops of B = 1..4 (thorough 1..6) batches with results "
    "present for every subset but the full one x batch_ids in {None} + every "
    "ordered selection of length <= 2 (thorough <= 3; tuple, list, range) x "
    "resource option sets, plus B = 12 with selected subsets and selections; "
    "every script: bash -n, header range parsed, run "
    "with bash once per index, captured program compiled and executed; plus "
    "the xyzpy-grow command line from every subset state; non-trivial = "
    "cases with >= 2 batches"
)
ASSUMPTIONS = [
    "real schedulers are replaced by running the script with bash with the "
    "scheduler's index variable set; the launcher is a stub capturing the "
    "here-document after shell substitution (fast path) or the real "
    "interpreter (conformance subset)",
    "options with num_workers are executed only in the real-interpreter "
    "conformance path (a loky pool cannot be started inside a pool worker); "
    "in the fast path their program is compiled and inspected",
]

# (a name that starts with characters of the folder prefix ".xyz-")
NAME = "zx-k=0.5 (\u03c3)"
IDXVAR = {"sge": "SGE_TASK_ID", "pbs": "PBS_ARRAY_INDEX",
          "slurm": "SLURM_ARRAY_TASK_ID"}
RANGE = {"sge": re.compile(r"^#\$ -t (\d+)-(\d+)$", re.M),
         "pbs": re.compile(r"^#PBS -J (\d+)-(\d+)$", re.M),
         "slurm": re.compile(r"^#SBATCH --array=(\d+)-(\d+)$", re.M)}

OPTSETS = [
    {},
    {"time": 2},
    {"time": 1.5},
    {"time": "1:30:00"},
    {"hours": 1, "minutes": 20},
    {"mem": 4},
    {"gigabytes": 3},
    {"mem_per_cpu": 2, "num_procs": 2},
    {"num_procs": 4, "num_workers": 2},
    {"num_workers": 2},
    {"gpu": 1, "requeue": None, "exclusive": True},
    {"setup": "import math\nX = math.pi", "shell_setup": "export FOO=bar"},
    {"num_nodes": 1, "num_threads": 2, "debugging": True},
]


def cases(tier, seed):
    bmax = 4 if tier == "quick" else 6
    j = 0
    for B in range(1, bmax + 1):
        ids = list(range(1, B + 1))
        subsets = [list(s) for k in range(0, B)
                   for s in itertools.combinations(ids, k)]
        if B >= 5:
            subsets = subsets[::3]
        sels = [None] + [[i] for i in ids]
        sels += [list(p) for p in itertools.permutations(ids, 2)]
        if tier == "thorough" and B <= 4:
            sels += [list(p) for p in itertools.permutations(ids, 3)]
        for sched, mode, have, sel in itertools.product(
                ("sge", "pbs", "slurm"), ("array", "single"), subsets, sels):
            j += 1
            if tier == "quick" and sel is not None and len(sel) == 2 and j % 2:
                continue
            nopt = 2 if tier == "quick" else 4
            for t in range(nopt):
                oi = (j * 3 + t * 5) % len(OPTSETS)
                yield {"sched": sched if (j + t) % 5 else sched.upper(),
                       "mode": mode, "B": B, "have": have, "sel": sel,
                       "selform": ["tuple", "list", "range", "gen"][
                           (j + t) % 4],
                       "opts": oi}
        for have in subsets:
            yield {"cli": True, "B": B, "have": have}
    # two-digit batch ids
    B = 12
    ids = list(range(1, B + 1))
    haves = [[], ids[:9], ids[1::2], [i for i in ids if i != 10]]
    sels = [None, [10], [12, 3], [2, 11, 7], [9, 10, 11]]
    for sched, mode, have, sel in itertools.product(
            ("sge", "pbs", "slurm"), ("array", "single"), haves, sels):
        j += 1
        if tier == "quick" and j % 2:
            continue
        yield {"sched": sched, "mode": mode, "B": B, "have": have, "sel": sel,
               "selform": ["tuple", "list", "range", "gen"][j % 4]
               if sel != [9, 10, 11] else "range",
               "opts": (j * 3) % len(OPTSETS)}
    for have in haves:
        yield {"cli": True, "B": B, "have": have}


def worker_init():
    import xyzpy  # noqa


_STUB = None


def stub_launcher():
    global _STUB
    if _STUB is None:
        p = os.path.join(core.scratch_root(), "stub-launcher.sh")
        with open(p, "w") as f:
            f.write('#!/bin/bash\n# called as: stub -c "$SCRIPT"\n'
                    'printf "%s" "$2" > "$XV_CAPTURE"\n')
        os.chmod(p, os.stat(p).st_mode | stat.S_IXUSR)
        _STUB = p
    return _STUB


class CropWorld:
    def __init__(self, B, d, slow_first=False):
        import xyzpy as xyz
        from xyzpy.gen.cropping import grow

        self.B, self.d = B, d
        # (slow_first: the first case of every batch takes longest, so a
        # parallel grow completes its cases out of order)
        self.f = xfn.make_fn(
            ["a"], kind="num", name="f16",
            delay=("a", list(range(1, 2 * B + 1, 2)), 0.4) if slow_first
            else None)
        self.combos = {"a": list(range(1, 2 * B + 1))}
        crop = xyz.Crop(fn=self.f, name=NAME, parent_dir=d, num_batches=B)
        crop.sow_combos(self.combos, verbosity=0)
        self.crop = crop
        self.batches = {}
        snap = fsseam.snapshot(d)
        for i in range(1, B + 1):
            with xfn.CallLog() as log:
                grow(i, crop=crop, verbosity=0)
            self.batches[i] = log.encs()
        fsseam.restore(d, snap)
        self.expect = tuple(xfn.expected("num", {"a": a})
                            for a in self.combos["a"])

    def grow_have(self, have):
        from xyzpy.gen.cropping import grow

        for i in have:
            grow(i, crop=self.crop, verbosity=0)

    def finished(self):
        import xyzpy as xyz

        c = xyz.Crop(name=NAME, parent_dir=self.d)
        return set(range(1, self.B + 1)) - set(c.missing_results())


def check_case(case):
    import xyzpy as xyz

    B, have = case["B"], case["have"]
    d = core.fresh_dir("c16.results[1]")
    w = CropWorld(B, d)
    w.grow_have(have)
    if case.get("cli"):
        return check_cli(case, w)
    sched = case["sched"]
    sl = sched.lower()
    mode, sel = case["mode"], case["sel"]
    opts = dict(OPTSETS[case["opts"]])
    vio = []

    def key(sym):
        return "C16|%s|%s|%s|%s" % (
            sl, mode, "ids" if sel is not None else (
                "all" if not have else "missing"), sym)

    if sel is not None and case["selform"] == "tuple":
        bids = tuple(sel)
    elif sel is not None and case["selform"] == "range" and len(sel) == 2 \
            and sel[1] == sel[0] + 1:
        bids = range(sel[0], sel[1] + 1)
    elif sel is not None and case["selform"] == "gen":
        # (a one-shot iterator)
        bids = (i for i in sel)
    else:
        bids = None if sel is None else list(sel)
    out = os.path.join(d, "out")
    home = os.path.join(d, "home")
    os.makedirs(home, exist_ok=True)
    cwd0 = os.getcwd()
    rel = core.pick([sched, mode, B, have, sel, "rel"], 3) == 0
    if rel:
        # the crop is addressed by a path relative to the directory the user
        # happens to be in when generating the script (the job itself runs
        # from somewhere else)
        os.chdir(os.path.dirname(d))
        gen_crop = xyz.Crop(name=NAME, parent_dir=os.path.basename(d))
    else:
        gen_crop = xyz.Crop(name=NAME, parent_dir=d)
    try:
        try:
            # (scripts for another crop were generated in this process just
            # before - for a fresh crop, then for chosen batches, or the other
            # way round: every script is built from its own request only)
            pre = core.pick([sched, mode, B, have, sel, "prelude"], 3)
            if pre:
                dp = core.fresh_dir("c16pre")
                cp = xyz.Crop(fn=w.f, name="pre", parent_dir=dp,
                              num_batches=3)
                cp.sow_combos({"a": [1, 2, 3]}, verbosity=0)
                for pm in ("array", "single"):
                    reqs = [None, [3, 1]] if pre == 1 else [[3, 1], None]
                    for rq in reqs:
                        cp.gen_cluster_script(
                            sched, rq, mode=pm, launcher=stub_launcher(),
                            output_directory=out, conda_env=False)
            script = gen_crop.gen_cluster_script(
                sched, bids, mode=mode, launcher=stub_launcher(),
                output_directory=out, conda_env=False, **opts)
        finally:
            os.chdir(cwd0)
    except Exception as e:
        return {"nontrivial": B >= 2, "outcome": "gen-raised",
                "violations": [(key("gen-raised:" + type(e).__name__),
                                "gen_cluster_script(%r, %r, mode=%r, **%r) "
                                "raised %r" % (sched, bids, mode, opts, e))]}
    spath = os.path.join(d, "job.sh")
    with open(spath, "w") as fh:
        fh.write(script)
    p = subprocess.run(["bash", "-n", spath], capture_output=True, text=True)
    if p.returncode:
        vio.append((key("bash-syntax"), "bash -n: %s" % p.stderr[:200]))
        return {"nontrivial": B >= 2, "outcome": "bash-n", "violations": vio}
    # ---- intended work ------------------------------------------------------
    missing = [i for i in range(1, B + 1) if i not in have]
    if sel is not None:
        intended = list(sel)
    else:
        intended = missing
    head = script
    if sl in ("slurm", "pbs"):
        # (sbatch and PBS's qsub stop reading directives at the first line
        # that is a command: anything after it is a comment to them)
        lines = script.split("\n")
        k = next((i for i, ln in enumerate(lines)
                  if ln.strip() and not ln.lstrip().startswith("#")),
                 len(lines))
        head = "\n".join(lines[:k])
        late = [ln for ln in lines[k:]
                if ln.startswith({"slurm": "#SBATCH", "pbs": "#PBS"}[sl])]
        if late:
            vio.append((key("directive-after-command"), "the scheduler "
                        "ignores %r: it comes after the command %r"
                        % (late[0], lines[k])))
    m = RANGE[sl].search(head)
    if mode == "array":
        ntasks = len(intended)
        if m:
            lo, hi = int(m.group(1)), int(m.group(2))
            if (lo, hi) != (1, ntasks):
                vio.append((key("range"), "array range %d-%d for %d tasks"
                            % (lo, hi, ntasks)))
            indices = list(range(lo, hi + 1))
        else:
            if not (sl == "pbs" and ntasks == 1):
                vio.append((key("range-missing"), "no array header"))
            indices = [1]
    else:
        if m:
            vio.append((key("range-in-single"), "single mode has an array "
                        "header"))
        indices = [1]
    # ---- run it -------------------------------------------------------------
    grown_calls = []
    cap = os.path.join(d, "captured.py")
    for idx in indices:
        env = {"PATH": os.environ["PATH"], "HOME": home, "XV_CAPTURE": cap,
               IDXVAR[sl]: str(idx)}
        if os.path.exists(cap):
            os.remove(cap)
        p = subprocess.run(["bash", spath], capture_output=True, text=True,
                           env=env, cwd=home)
        if p.returncode or not os.path.exists(cap):
            vio.append((key("bash-run"), "bash exit %d: %s"
                        % (p.returncode, p.stderr[-200:])))
            break
        src = open(cap).read()
        try:
            code = compile(src, "captured-program", "exec")
        except SyntaxError as e:
            vio.append((key("python-syntax"), "embedded program: %s in %r"
                        % (e, (e.text or "").strip())))
            break
        if "num_workers" in opts:
            if "num_workers=%d" % opts["num_workers"] not in src:
                vio.append((key("num_workers"), "num_workers not passed on"))
            # executed with the real interpreter in the conformance pass
            src = src.replace("num_workers=%d" % opts["num_workers"],
                              "num_workers=None")
            code = compile(src, "captured-program", "exec")
        with xfn.CallLog() as log, core.Silence():
            try:
                exec(code, {"__name__": "__main__"})
            except Exception as e:
                vio.append((key("python-raised:" + type(e).__name__),
                            "task %d: %r" % (idx, e)))
                break
        grown_calls += log.encs()
    else:
        want = [e for i in intended for e in w.batches[i]]
        if sorted(grown_calls) != sorted(want):
            vio.append((key("batches"),
                        "have %r, batch_ids %r: the job evaluated %d settings, "
                        "the intended batches %r hold %d" % (
                            have, sel, len(grown_calls), intended, len(want))))
        fin = w.finished()
        if fin != set(have) | set(intended):
            vio.append((key("finished"), "finished batches %r, expected %r"
                        % (sorted(fin), sorted(set(have) | set(intended)))))
        if set(have) | set(intended) == set(range(1, B + 1)):
            c = xyz.Crop(name=NAME, parent_dir=d)
            if not c.is_ready_to_reap():
                vio.append((key("not-ready"), "crop not ready after the job"))
            else:
                res = c.reap()
                if tuple(res) != w.expect:
                    vio.append((key("reap"), "reaped result is not exact"))
    return {"nontrivial": B >= 2,
            "outcome": "%s/%s:%s" % (sl, mode, "ok" if not vio else "bad"),
            "violations": vio}


def check_cli(case, w):
    import xyzpy as xyz
    from xyzpy.gen import xyzpy_grow_cli

    B, have = case["B"], case["have"]
    vio = []
    missing = [i for i in range(1, B + 1) if i not in have]
    argv = sys.argv
    keep_env = {k: os.environ.get(k) for k in (
        "OMP_NUM_THREADS", "MKL_NUM_THREADS", "OPENBLAS_NUM_THREADS",
        "VECLIB_MAXIMUM_THREADS", "NUMEXPR_NUM_THREADS", "NUMBA_NUM_THREADS")}
    path_keep = list(sys.path)
    try:
        sys.argv = ["xyzpy-grow", NAME, "--parent-dir", w.d, "--verbosity", "0"]
        with xfn.CallLog() as log, core.Silence():
            try:
                xyzpy_grow_cli.main()
            except SystemExit as e:
                if e.code:
                    vio.append(("C16|cli|exit", "xyzpy-grow exited %r" % e.code))
            except Exception as e:
                vio.append(("C16|cli|raised:" + type(e).__name__,
                            "xyzpy-grow with finished %r raised %r" % (have, e)))
    finally:
        sys.argv = argv
        sys.path[:] = path_keep
        for k, v in keep_env.items():
            if v is None:
                os.environ.pop(k, None)
            else:
                os.environ[k] = v
    if not vio:
        want = [e for i in missing for e in w.batches[i]]
        if sorted(log.encs()) != sorted(want):
            vio.append(("C16|cli|batches", "finished %r: xyzpy-grow evaluated "
                        "%d settings, the missing batches hold %d"
                        % (have, len(log.calls), len(want))))
        c = xyz.Crop(name=NAME, parent_dir=w.d)
        if not c.is_ready_to_reap() or tuple(c.reap()) != w.expect:
            vio.append(("C16|cli|reap", "after xyzpy-grow the crop is not "
                        "ready / not exact"))
    return {"nontrivial": B >= 2, "outcome": "cli:%s" % (
        "ok" if not vio else "bad"), "violations": vio}


def real_interpreter(task):
    """conformance: the launcher is the real interpreter, the console script
    is the installed one"""
    import xyzpy as xyz

    kind, sched, mode, have, sel, opts = task
    B = 3
    d = core.fresh_dir("c16r")
    w = CropWorld(B, d, slow_first="num_workers" in opts)
    w.grow_have(have)
    missing = [i for i in range(1, B + 1) if i not in have]
    env = dict(os.environ, PYTHONPATH=core.REPO, HOME=d)
    env.pop("CONDA_DEFAULT_ENV", None)
    logf = os.path.join(d, "calls.log")
    env["XV_CALLLOG"] = logf
    if kind == "cli":
        exe = os.path.join(os.path.dirname(sys.executable), "xyzpy-grow")
        p = subprocess.run([exe, NAME, "--parent-dir", d], env=env,
                           capture_output=True, text=True, cwd=d)
        intended = missing
        err = p.stderr if p.returncode else ""
    else:
        c = xyz.Crop(name=NAME, parent_dir=d)
        try:
            script = c.gen_cluster_script(
                sched, sel, mode=mode, launcher=sys.executable,
                output_directory=os.path.join(d, "out"), conda_env=False,
                **opts)
        except Exception as e:
            return {"ok": False, "task": [kind, sched, mode, have, sel, opts],
                    "why": "gen_cluster_script raised %r" % e}
        spath = os.path.join(d, "job.sh")
        open(spath, "w").write(script)
        intended = list(sel) if sel is not None else missing
        m = RANGE[sched].search(script)
        idxs = range(int(m.group(1)), int(m.group(2)) + 1) if m else [1]
        err = ""
        for idx in idxs:
            e2 = dict(env)
            e2[IDXVAR[sched]] = str(idx)
            p = subprocess.run(["bash", spath], env=e2, capture_output=True,
                               text=True, cwd=d)
            if p.returncode or "Traceback" in p.stderr:
                err = p.stderr[-300:]
                break
    calls = []
    if os.path.exists(logf):
        calls = [l.split("\t")[1] for l in open(logf).read().strip().split("\n")
                 if l]
    want = [e for i in intended for e in w.batches[i]]
    ok = (not err) and sorted(calls) == sorted(want)
    why = err or "evaluated %d settings, intended %d" % (len(calls), len(want))
    if ok and set(have) | set(intended) == set(range(1, B + 1)):
        # the crop must now reap exactly
        try:
            res = xyz.Crop(name=NAME, parent_dir=d).reap()
            if tuple(res) != w.expect:
                ok, why = False, "reaped %r, expected %r" % (res, w.expect)
        except Exception as e:
            ok, why = False, "reap raised %r" % e
    return {"ok": ok, "task": [kind, sched, mode, have, sel, opts],
            "why": why}


def cli_module(task):
    """conformance: the swept function lives in a module next to the crop
    (pickled by reference); xyzpy-grow is started from another directory and
    only told the parent directory"""
    import importlib
    import xyzpy as xyz

    have = task["have"]
    d = core.fresh_dir("c16m")
    modname = "c16_usermod"
    with open(os.path.join(d, modname + ".py"), "w") as fh:
        fh.write("def fn(a, b):\n    return 100 * a + b\n")
    sys.path.insert(0, d)
    try:
        sys.modules.pop(modname, None)
        mod = importlib.import_module(modname)
        combos = {"a": [1, 2, 3], "b": [10, 20]}
        crop = xyz.Crop(fn=mod.fn, name=NAME, parent_dir=d, batchsize=2)
        crop.sow_combos(combos, verbosity=0)
        if have:
            crop.grow(have, verbosity=0)
        elsewhere = os.path.join(d, "elsewhere")
        os.makedirs(elsewhere)
        env = dict(os.environ, PYTHONPATH=core.REPO, HOME=d)
        env.pop("CONDA_DEFAULT_ENV", None)
        exe = os.path.join(os.path.dirname(sys.executable), "xyzpy-grow")
        p = subprocess.run([exe, NAME, "--parent-dir", d], env=env,
                           capture_output=True, text=True, cwd=elsewhere)
        if p.returncode:
            return {"ok": False, "task": task,
                    "why": "xyzpy-grow exited %d: %s" % (
                        p.returncode, p.stderr.strip()[-300:])}
        c = xyz.Crop(name=NAME, parent_dir=d)
        if not c.is_ready_to_reap():
            return {"ok": False, "task": task, "why": "after xyzpy-grow the "
                    "crop is missing batches %r" % (c.missing_results(),)}
        res = c.reap()
        want = tuple(tuple(100 * a + b for b in combos["b"])
                     for a in combos["a"])
        if tuple(map(tuple, res)) != want:
            return {"ok": False, "task": task,
                    "why": "reaped %r, expected %r" % (res, want)}
        return {"ok": True, "task": task, "why": ""}
    finally:
        sys.path.remove(d)
        sys.modules.pop(modname, None)


def run(ctx):
    ctx.run_cases(cases(ctx.tier, ctx.seed))
    for r in ctx.map_unordered("cli_module", [{"have": []}, {"have": [2]}]):
        if not r["ok"]:
            ctx.violation("C16|real|cli-module",
                          "function from a module next to the crop, "
                          "xyzpy-grow started elsewhere (finished before: "
                          "%r): %s" % (r["task"]["have"], r["why"]),
                          {"climod": r["task"]})
    tasks = [("cli", None, None, [2], None, {}),
             ("script", "slurm", "array", [], None, {}),
             ("script", "sge", "array", [1], None, {}),
             ("script", "pbs", "single", [3], None,
              {"num_procs": 2, "num_workers": 2}),
             ("script", "slurm", "single", [], [3, 1], {"num_workers": 2}),
             ("script", "slurm", "array", [], None, {"num_workers": 2}),
             ("script", "sge", "array", [2], None,
              {"num_procs": 2, "num_workers": 2}),
             ("script", "pbs", "array", [1, 2], None, {})]
    if ctx.tier == "thorough":
        for sched, mode in itertools.product(("sge", "pbs", "slurm"),
                                             ("array", "single")):
            for have, sel in (([], None), ([2], None), ([], [2, 3]), ([1], [3])):
                tasks.append(("script", sched, mode, have, sel,
                              {"num_procs": 2, "num_workers": 2}
                              if len(have) else {}))
        tasks += [("cli", None, None, h, None, {}) for h in ([], [1], [1, 3])]
    n = 0
    for r in ctx.map_unordered("real_interpreter", tasks):
        n += 1
        if not r["ok"]:
            t = r["task"]
            ctx.violation("C16|real|%s|%s|%s" % (t[0], t[1], t[2]),
                          "real interpreter run %r: %s" % (t, r["why"]),
                          {"real": t})
    ctx.coverage_extra["real_interpreter_runs"] = n


def replay(case):
    if "climod" in case:
        r = cli_module(case["climod"])
        return [] if r["ok"] else [("C16|real|cli-module", r["why"])]
    if "real" in case:
        r = real_interpreter(tuple(case["real"]))
        t = r["task"]
        return [] if r["ok"] else [("C16|real|%s|%s|%s" % (t[0], t[1], t[2]),
                                    r["why"])]
    return check_case(case)["violations"]
