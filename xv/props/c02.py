"""C02 - sparse cases run only what was asked and leave every other slot
missing."""
import itertools

from xv import core, cmp, fn as xfn

ID = "C02"
LEVEL = "exploration"
RULE = (
    "argument universes 2x2, 3x2, 2x2x2 (thorough + 3x3, 2x2x2x2, 4 "
    "arguments): every non-empty subset of the universe as the case set "
    "(thorough: subsets of size <= 4 for the larger universes) in ascending, "
    "reversed and rotated order (all orders for <= 3 cases), dict spelling "
    "(with per-case key order varied) through combo_runner(cases=) and tuple "
    "spelling through case_runner, optional sub-grid on 0-2 further "
    "arguments, result kinds, shuffle, flat / nested, split; plus rejected "
    "overlaps of case and grid arguments; non-trivial = >= 2 cases or a "
    "sub-grid"
)
ASSUMPTIONS = [
    "case values are mutually sortable per argument (the property says "
    "'sorted union')",
    "a missing slot is NaN / None (bool, str) / arrays or tuples of NaN / an "
    "all-NaN Dataset, with the shape of a real result",
]

UNIVERSES = {
    "1s": (["alpha"], [["gamma", "alpha", "b"]]),
    "1n": (["num"], [[3, 1, 2]]),
    "2x2": (["a", "b"], [[2, 1], ["y", "x"]]),
    "3x2": (["b", "a"], [[5, 3, 4], [1.5, 0.5]]),
    "2x2x2": (["c", "a", "b"], [[2, 1], ["q", "p"], [10, 20]]),
    "3x3": (["a", "b"], [[3, 1, 2], [9, 7, 8]]),
    # ints and floats within one argument; tuples as values
    "mixnum": (["a", "b"], [[1, 2.5, 3, 0.5], ["y"]]),
    "tupval": (["s", "b"], [[(2, 3), (1, 4)], [20, 10]]),
    # an argument whose values cannot be ordered, before one whose set
    # iteration order is not ascending (used by C03)
    "cplx": (["cz", "cx"], [[1j, 2j, 3j], [0.5, 0.25, 2.5, 7.0, -1.0]]),
    "2x2x2x2": (["d", "a", "c", "b"], [[1, 2], [4, 3], ["u", "v"], [0.5, 0.25]]),
    # floats with many decimals; a small all-integer universe (its cases are
    # also handed over as rows of a numpy table)
    "floatl": (["a", "b"], [[0.1 + 0.2, 1 / 3, 2 / 3], [2, 1]]),
    "2x2i": (["a", "b"], [[2, 1], [9, 7]]),
}
KINDS = ["num", "bool", "str", "tuple2", "list", "array", "dict", "dataset",
         "iarray", "npstr"]
SUBGRIDS = [[], [("z", [7, 5])], [("z", [7, 5, 6]), ("w", ["m", "n"])]]


def orders(sub):
    sub = list(sub)
    if len(sub) <= 3:
        return [list(p) for p in itertools.permutations(sub)]
    k = len(sub) // 2
    return [sub, sub[::-1], sub[k:] + sub[:k]]


def cases(tier, seed):
    unis = ["1s", "1n", "2x2", "3x2", "2x2x2", "mixnum", "tupval", "floatl",
            "2x2i"] + (
        ["3x3", "2x2x2x2"] if tier == "thorough" else [])
    j = 0
    for u in unis:
        names, vals = UNIVERSES[u]
        pts = list(itertools.product(*vals))
        maxsize = len(pts) if len(pts) <= 8 else 4
        if tier == "quick" and len(pts) > 6:
            maxsize = 4
        for size in range(1, maxsize + 1):
            for sub in itertools.combinations(range(len(pts)), size):
                ords = orders(sub)
                if tier == "quick" and len(ords) > 3:
                    ords = ords[::2]
                nk = 3 if tier == "quick" else (8 if size <= 3 else 4)
                for od, t in itertools.product(ords, range(nk)):
                    j += 1
                    kind = KINDS[j % len(KINDS)]
                    sg = (j // 3) % 3
                    yield {"uni": u, "cases": od, "kind": kind,
                           "subgrid": sg, "api": ["combo", "case"][j % 2],
                           "shuffle": [False, True, 3][(j // 2) % 3],
                           "flat": j % 5 == 0,
                           "split": kind == "tuple2" and j % 2 == 0,
                           "keyrot": j % 3,
                           # the cases handed over as a one-shot iterator
                           "oneshot": j % 4 == 1,
                           # the last argument is keyword-only (with a
                           # default); argument names are inferred
                           "kwonly": j % 4 == 3,
                           # dict cases that also set an argument the call
                           # does not declare
                           "partial": core.pick([u, od, t, "partial"], 3) == 0}
                    if t == 0 and u != "tupval":
                        # (tuples cannot be coordinate labels of a Dataset)
                        # the same request through a long-lived Runner that
                        # ran something else before (other argument order
                        # given for that run only)
                        yield {"uni": u, "cases": od,
                               "kind": ["num", "str", "npstr", "bool"][
                                   core.pick([u, od, "rkind"], 4)],
                               "subgrid": sg, "api": "runner",
                               "shuffle": [False, True, 3][
                                   core.pick([u, od, "rs"], 3)],
                               "flat": True, "split": False,
                               "keyrot": core.pick([u, od, "rk"], 3)}
    # rejected overlaps
    for u in unis:
        for kind in ("num", "dataset"):
            for api in ("combo", "case", "to_ds", "runner", "harvester",
                        "sow_combos", "sow_cases"):
                if u == "tupval" and api in ("to_ds", "runner", "harvester"):
                    continue
                if api in ("runner", "harvester") and kind == "dataset":
                    continue
                for sh in (False, True):
                    yield {"uni": u, "overlap": True, "kind": kind, "api": api,
                           "shuffle": sh, "cases": [0, 1]}


def worker_init():
    import xyzpy  # noqa


def check_case(case):
    import numpy as np
    import xyzpy as xyz

    names, vals = UNIVERSES[case["uni"]]
    pts = list(itertools.product(*vals))
    chosen = [pts[i] for i in case["cases"]]
    kind = case["kind"]
    if case.get("overlap"):
        return check_overlap(case, names, vals, chosen)
    sub = SUBGRIDS[case["subgrid"]]
    gnames = [a for a, _ in sub]
    gvals = [v for _, v in sub]
    kwonly = bool(case.get("kwonly")) and not sub and len(names) >= 2 \
        and case["api"] == "case"
    f = xfn.make_fn(names + gnames, kind=kind, name="f02",
                    kwonly=(names[-1],) if kwonly else (),
                    defaults={names[-1]: vals[-1][0]} if kwonly else None)
    vio = []

    def key(sym):
        return "C02|%s|%s|%s%s|%s" % (
            case["api"], kind, "flat" if case["flat"] else "nested",
            "+split" if case["split"] else "", sym)

    gpts = list(itertools.product(*gvals))
    want_calls = sorted(
        xfn.enc(dict(zip(names + gnames, c + g))) for c in chosen for g in gpts)
    sticky = case["api"] == "runner" and not sub
    if sticky:
        # the function has one more argument with a default; an earlier run
        # swept it as a sub-grid, the judged run does not mention it
        f = xfn.make_fn(names + ["z"], kind=kind, name="f02",
                        defaults={"z": 7})
        want_calls = sorted(xfn.enc(dict(zip(names, c), z=7)) for c in chosen)
    kw = dict(verbosity=0, shuffle=case["shuffle"], split=case["split"])
    combos = dict(sub) if sub else None
    if combos and case.get("oneshot") and case["api"] in ("combo", "case"):
        # (the sub-grid's values as one-shot iterators as well)
        combos = {a: iter(v) for a, v in combos.items()}
    with xfn.CallLog() as log:
        try:
            if case["api"] == "combo":
                dcases = []
                for n, c in enumerate(chosen):
                    items = list(zip(names, c))
                    r = (case["keyrot"] * n) % len(items)
                    dcases.append(dict(items[r:] + items[:r]))
                got = xyz.combo_runner(
                    f, combos, flat=case["flat"], **kw,
                    cases=(c_ for c_ in dcases) if case.get("oneshot")
                    else dcases)
                flat = case["flat"]
                # axis order = key order of the first case
                ax_names = list(dcases[0].keys())
            elif case["api"] == "runner":
                r = xyz.Runner(f, fn_args=names + gnames, var_names="out")
                if sticky:
                    r = xyz.Runner(f, fn_args=names, var_names="out")
                with xfn.CallLog():
                    # an earlier run on the same object: argument names
                    # given for that run only, in another order
                    rn = (names + gnames)[::-1]
                    first = tuple(
                        dict(zip(names + gnames, chosen[0] + gpts[0]))[a]
                        for a in rn)
                    r.run_cases([first], fn_args=rn, verbosity=0)
                    if case["keyrot"]:
                        r.run_cases([dict(zip(names, chosen[-1]))],
                                    combos=tuple(sub), verbosity=0)
                    if sticky:
                        r.run_cases([dict(zip(names, chosen[-1]))],
                                    combos={"z": [7, 5]}, verbosity=0,
                                    shuffle=2)
                # (keyrot 2: the names given for this run, in the opposite
                # order to the stored ones - a bare name if there is one only)
                rev = case["keyrot"] == 2 and len(names) >= 2
                ds = r.run_cases([tuple(c[::-1] if rev else c)
                                  for c in chosen],
                                 fn_args=(names[0] if len(names) == 1
                                          else names[::-1])
                                 if case["keyrot"] == 2
                                 else None, verbosity=0,
                                 shuffle=case["shuffle"],
                                 **({"combos": tuple(sub)} if sub else {}))
                got = []
                for c in chosen:
                    for g in gpts:
                        got.append(ds["out"].sel(
                            dict(zip(names + gnames, c + g))).item())
                nn = int(ds["out"].notnull().sum())
                if nn != len(chosen) * len(gpts):
                    vio.append((key("not-missing"),
                                "cases %r: %d cells hold data, %d requested"
                                % (chosen, nn, len(chosen) * len(gpts))))
                flat = True
                ax_names = names
            else:
                tcases = [tuple(c) for c in chosen]
                fa = names
                if len(names) == 1 and case["keyrot"] != 1:
                    # a single argument: bare values and a bare name
                    tcases = [c[0] for c in chosen]
                    fa = names[0] if case["keyrot"] == 2 else names
                if case["uni"] == "2x2i" and not case.get("oneshot"):
                    # (the rows of a numpy table: sequences, but neither
                    # tuples nor lists)
                    tcases = list(np.array(chosen))
                if kwonly:
                    fa = None
                elif case.get("partial") and len(names) >= 2 and \
                        not case.get("oneshot"):
                    fa = names[:-1]
                    tcases = [dict(zip(names, c)) for c in chosen]
                got = xyz.case_runner(
                    f, fa, iter(tcases) if case.get("oneshot") else tcases,
                    combos=combos, **kw)
                flat = True
                ax_names = names
        except Exception as e:
            return {"nontrivial": True, "outcome": "raised",
                    "violations": [(key("raised:" + type(e).__name__),
                                    "cases %r of %s (+%d grid args): %r" % (
                                        chosen, case["uni"], len(sub), e))]}
    calls = sorted(log.encs())
    if calls != want_calls:
        vio.append((key("calls"),
                    "cases %r: function called for %r, requested %r"
                    % (chosen, [c for c in calls if c not in want_calls][:3]
                       or "%d calls" % len(calls), want_calls[:3])))

    def val(c, g):
        if sticky:
            return xfn.expected(kind, dict(zip(names, c), z=7))
        return xfn.expected(kind, dict(zip(names + gnames, c + g)))

    ncomp = 2 if case["split"] else None
    outs = [got] if ncomp is None else list(got)
    if ncomp is not None and len(got) != 2:
        vio.append((key("split"), "split output has %d parts" % len(got)))
        outs = []
    for ci, out in enumerate(outs):
        comp = (lambda x: x) if ncomp is None else (lambda x, ci=ci: x[ci])
        if flat:
            want = [comp(val(c, g)) for c in chosen for g in gpts]
            if not cmp.leaf_equal(list(out), want):
                vio.append((key("flat-order"),
                            "cases %r shuffle %r: flat results are not in "
                            "request order" % (chosen, case["shuffle"])))
            continue
        # nested: sorted union per case argument, then the grid as given
        perm = [names.index(a) for a in ax_names]
        axes = [sorted({c[p] for c in chosen}) for p in perm] + gvals
        want_set = {tuple(c[p] for p in perm): c for c in chosen}
        real = comp(val(chosen[0], gpts[0]))
        for idx in itertools.product(*[range(len(a)) for a in axes]):
            lab = tuple(a[i] for a, i in zip(axes, idx))
            cl, gl = lab[: len(names)], lab[len(names):]
            try:
                v = cmp.nested_get(out, idx)
            except Exception:
                vio.append((key("shape"), "cases %r: no slot at %r (axes %r)"
                            % (chosen, idx, axes)))
                break
            if cl in want_set:
                w = comp(val(want_set[cl], gl))
                if not cmp.leaf_equal(v, w):
                    vio.append((key("placement"),
                                "cases %r: slot %r holds %r" % (chosen, lab, v)))
                    break
            else:
                if not cmp.leaf_missing(v) or (
                        kind in ("str", "npstr", "bool") and v is not None):
                    # (for string and boolean results the placeholder is
                    # None: a nan would turn into the string 'nan' / True)
                    vio.append((key("not-missing"),
                                "cases %r: unrequested slot %r holds %r"
                                % (chosen, lab, v)))
                    break
                if kind in ("tuple2", "list", "array", "iarray") and \
                        ncomp is None and \
                        np.shape(v) != np.shape(real):
                    vio.append((key("placeholder-shape"),
                                "placeholder shape %r, real result %r"
                                % (np.shape(v), np.shape(real))))
                    break
                if kind in ("dict", "dataset"):
                    import xarray as xr

                    rd = xr.Dataset(real) if isinstance(real, dict) else real
                    if not isinstance(v, xr.Dataset) or set(
                            v.data_vars) != set(rd.data_vars) or any(
                            v[x].shape != rd[x].shape for x in rd.data_vars):
                        vio.append((key("placeholder-shape"),
                                    "Dataset placeholder is not shaped like "
                                    "a real result"))
                        break
        else:
            # no extra axes / lengths
            def shape_ok(o, depth=0):
                if depth == len(axes):
                    return True
                return len(o) == len(axes[depth]) and all(
                    shape_ok(x, depth + 1) for x in o)
            if not shape_ok(out):
                vio.append((key("shape"), "cases %r: output grid is not %r"
                            % (chosen, [len(a) for a in axes])))
    return {"nontrivial": len(chosen) >= 2 or bool(sub),
            "outcome": "%s:%s" % (case["api"], "ok" if not vio else "bad"),
            "violations": vio}


def check_overlap(case, names, vals, chosen):
    import xyzpy as xyz

    kind = case["kind"]
    f = xfn.make_fn(names, kind=kind, name="f02")
    dcases = [dict(zip(names, c)) for c in chosen]
    over = {names[-1]: vals[-1]}  # the last case argument is also swept
    vio = []
    key = "C02|%s|%s|overlap" % (case["api"], kind)
    with xfn.CallLog() as log:
        try:
            if case["api"] == "combo":
                xyz.combo_runner(f, over, cases=dcases, verbosity=0,
                                 shuffle=case["shuffle"])
            elif case["api"] == "case":
                xyz.case_runner(f, names, [tuple(c) for c in chosen],
                                combos=over, verbosity=0,
                                shuffle=case["shuffle"])
            elif case["api"] == "to_ds":
                xyz.combo_runner_to_ds(
                    f, over, cases=dcases, verbosity=0,
                    var_names=None if kind == "dataset" else "out",
                    shuffle=case["shuffle"])
            elif case["api"] in ("runner", "harvester"):
                r = xyz.Runner(f, var_names="out")
                if case["api"] == "harvester":
                    xyz.Harvester(r).harvest_cases(
                        [tuple(c) for c in chosen], combos=over, verbosity=0,
                        shuffle=case["shuffle"])
                else:
                    r.run_cases(dcases, combos=over, verbosity=0,
                                shuffle=case["shuffle"])
            else:
                crop = xyz.Crop(fn=f, name="ov", batchsize=2,
                                parent_dir=core.fresh_dir("c02ov"))
                if case["api"] == "sow_combos":
                    crop.sow_combos(over, cases=dcases, verbosity=0,
                                    shuffle=case["shuffle"])
                else:
                    crop.sow_cases(names, [tuple(c) for c in chosen],
                                   combos=over, verbosity=0)
                if crop.is_prepared() and crop.num_sown_batches:
                    vio.append((key + "|sown", "batches were written for a "
                                "request with an argument in both the cases "
                                "and the grid"))
            vio.append((key + "|accepted", "an argument in both the cases "
                        "and the grid was accepted"))
        except Exception:
            pass
    if log.calls:
        vio.append((key + "|ran-first", "the function was called %d times "
                    "before the overlap was rejected" % len(log.calls)))
    return {"nontrivial": True, "outcome": "overlap", "violations": vio}
