"""C04 - sow, grow, reap returns exactly what running directly would have.

Layer 1: enumeration of sowing configurations x grow orders x grow entry
points x reload patterns.  Layer 2: explicit-state BFS over grow histories
(every permutation / partition / repetition of batch ids is a path of that
graph).  Conformance: real loky pools and real fresh sub-processes.
"""
import os
import sys
import json
import itertools
import subprocess

from xv import core, fsseam, histbfs, cmp, fn as xfn
from xv.props.c07 import build_inputs

ID = "C04"
LEVEL = "model_checking"
RULE = (
    "layer 1: N = 1..Nmax settings as grid (argument names not in "
    "alphabetical order) / case list (tuple and dict spelling) / cases x "
    "sub-grid; every batchsize 1..N+1, num_batches 1..N+2 or neither; shuffle "
    "given to the constructor or to the sow call; three grow orders x four "
    "grow entry points x reload patterns; reaped result compared with the "
    "direct run leaf by leaf; plus crops of 101-128 batches.  layer 2: BFS over histories of grow(i) / "
    "Crop.grow(S) / grow_missing / reload on crops of <= 5 batches, reap "
    "compared with the direct run in every complete state.  non-trivial = "
    ">= 2 settings and >= 2 batches (layer 1), distinct states (layer 2)"
)
ASSUMPTIONS = [
    "a raw reaped tuple carries no labels: every leaf must sit at the index "
    "of its own argument values, with axes in the given order or in "
    "argument-name order (the sower sorts grid arguments by name on purpose)",
    "sow_cases is given its optional sub-grid in parsed form (tuple of "
    "pairs)",
    "in-process 'fresh session' = new Crop(name, dir); a seed-chosen subset "
    "is re-executed with every step in its own python process",
]

NAME = "k"


# --------------------------------------------------------------------------- #
# layer 1


def cases(tier, seed):
    nmax = 12 if tier == "quick" else 40
    shuffles = [(None, False), ("ctor", True), ("sow", True), ("sow", 2),
                ("ctor", 5)]
    orders = ["asc", "desc", "rot"]
    vias = ["grow", "cropgrow", "missing", "twice"]
    kinds = ["grid", "cases", "casesdict", "mix"]
    n_all = 0
    for n in range(1, nmax + 1):
        reqs = [("batchsize", s) for s in range(1, n + 2)]
        reqs += [("num_batches", k) for k in range(1, n + 3)]
        reqs += [("default", None)]
        full = itertools.product(reqs, kinds, shuffles, orders)
        for j, ((mode, req), kind, (swhere, sval), order) in enumerate(full):
            if n > 8:
                # beyond N=8 rotate the secondary dimensions instead of
                # taking their full product
                if (j + n) % (5 if tier == "thorough" else 9) != 0:
                    continue
            n_all += 1
            yield {"n": n, "mode": mode, "req": req, "kind": kind,
                   "swhere": swhere, "sval": sval, "order": order,
                   "via": vias[(j + n) % 4], "reload": (j // 3 + n) % 4,
                   "const": (j + n) % 3 == 0}
            if kind == "cases" and n % 6 == 0 and core.pick(
                    [n, mode, req, swhere, sval, order, "m2"], 2) == 0:
                yield {"n": n, "mode": mode, "req": req, "kind": "mix2",
                       "swhere": "ctor" if swhere == "ctor" else None,
                       "sval": sval if swhere == "ctor" else False,
                       "order": order, "via": vias[(j + n) % 4],
                       "reload": (j // 3 + n) % 4, "const": (j + n) % 2 == 0}
            if kind in ("grid", "mix") and core.pick(
                    [n, mode, req, kind, swhere, sval, order], 6) == 0:
                # the same, after an earlier un-reaped sweep through the
                # same Crop object (every batch is then grown explicitly)
                yield {"n": n, "mode": mode, "req": req, "kind": kind,
                       "swhere": swhere, "sval": sval, "order": order,
                       "via": ["grow", "cropgrow", "twice"][(j + n) % 3],
                       "reload": (j // 3 + n) % 4,
                       "const": (j + n) % 2 == 0, "pre": True}


    # crops with more than 100 batches (three-digit ids)
    big = [(101, "batchsize", 1), (128, "num_batches", 101),
           (1010, "batchsize", 10), (204, "batchsize", 2)]
    for bi, (n, mode, req) in enumerate(big):
        for ki, kind in enumerate(kinds):
            if tier == "quick" and (ki + bi) % 2:
                continue
            swhere, sval = shuffles[(bi + ki) % len(shuffles)]
            yield {"n": n, "mode": mode, "req": req, "kind": kind,
                   "swhere": swhere, "sval": sval,
                   "order": orders[(bi + ki) % 3], "via": vias[(bi + ki) % 4],
                   "reload": (bi + ki) % 4, "const": ki % 2 == 0}
    # grid values that are numpy scalars of narrow types: the function gets
    # the very same objects a direct run hands it
    for mode, req in (("batchsize", 1), ("batchsize", 4), ("num_batches", 2)):
        for rl in (0, 3):
            yield {"nptypes": True, "mode": mode, "req": req, "reload": rl}


def check_nptypes(case):
    import numpy as np
    import xyzpy as xyz
    from xyzpy.gen.cropping import grow

    d = core.fresh_dir("c04np")
    f = xfn.make_fn(["a", "b"], kind="tstr", name="f04n")
    combos = {"b": np.array([1, 2, 250], dtype=np.uint8),
              "a": np.array([1.5, 0.1], dtype=np.float32)}
    want = xyz.combo_runner(f, {k: v.copy() for k, v in combos.items()},
                            verbosity=0)
    vio = []
    try:
        crop = xyz.Crop(fn=f, name=NAME, parent_dir=d,
                        **{case["mode"]: case["req"]})
        crop.sow_combos(combos, verbosity=0)
        for i in range(crop.num_batches, 0, -1):
            grow(i, crop=xyz.Crop(name=NAME, parent_dir=d)
                 if case["reload"] else crop, verbosity=0)
        got = (xyz.Crop(name=NAME, parent_dir=d) if case["reload"]
               else crop).reap()
        # (sow_combos sorts the arguments by name: a, b)
        want_sorted = tuple(tuple(want[j][i] for j in range(3))
                            for i in range(2))
        if not cmp.leaf_equal(got, want_sorted):
            vio.append(("C04|nptypes|%s|wrong" % case["mode"],
                        "float32 / uint8 grid values: reaped %r, a direct "
                        "run gives %r" % (got, want_sorted)))
    except Exception as e:
        vio.append(("C04|nptypes|%s|raised:%s" % (case["mode"],
                                                   type(e).__name__), repr(e)))
    return {"nontrivial": True, "outcome": "nptypes", "violations": vio}


def worker_init():
    import xyzpy  # noqa


def direct_run(f, kind, combos, fn_args, cs, constants):
    import xyzpy as xyz

    constants = dict(constants) if constants else None

    dcombos = {a: v for a, v in combos} if combos else None
    if kind == "grid":
        return xyz.combo_runner(f, dcombos, constants=constants, verbosity=0)
    cases_d = [dict(zip(fn_args, c)) for c in cs]
    return xyz.combo_runner(f, dcombos, cases=cases_d, constants=constants,
                            verbosity=0)


def compare_nested(got, want, arg_orders):
    """leaf-by-leaf; ``arg_orders`` = [(perm of axes)] to be accepted"""
    import numpy as np

    def shape_of(x, depth):
        s = []
        for _ in range(depth):
            s.append(len(x))
            x = x[0]
        return tuple(s)

    for perm in arg_orders:
        depth = len(perm)
        try:
            wshape = shape_of(want, depth)
            gshape = shape_of(got, depth)
        except Exception:
            continue
        if tuple(wshape[p] for p in perm) != gshape:
            continue
        ok = True
        for idx in itertools.product(*[range(s) for s in wshape]):
            w = cmp.nested_get(want, idx)
            g = cmp.nested_get(got, tuple(idx[p] for p in perm))
            if cmp.leaf_missing(w):
                if not cmp.leaf_missing(g):
                    ok = False
                    break
            elif not cmp.leaf_equal(g, w):
                ok = False
                break
        if ok:
            return True
    return False


def grow_all(crop_factory, B, order, via):
    from xyzpy.gen.cropping import grow

    ids = list(range(1, B + 1))
    if order == "desc":
        ids = ids[::-1]
    elif order == "rot":
        k = max(1, B // 2)
        ids = ids[k:] + ids[:k]
    if via == "grow":
        for i in ids:
            grow(i, crop=crop_factory(), verbosity=0)
    elif via == "cropgrow":
        h = len(ids) // 2
        if ids[:h]:
            crop_factory().grow(ids[:h], verbosity=0)
        # (the rest as a tuple, a one-shot iterator or a reversed view,
        # depending on the crop's size)
        rest = ids[h:]
        rest = [tuple(rest), iter(rest), reversed(rest[::-1])][B % 3]
        crop_factory().grow(rest, verbosity=0)
    elif via == "missing":
        grow(ids[0], crop=crop_factory(), verbosity=0)
        crop_factory().grow_missing(verbosity=0)
    elif via == "twice":
        for i in ids:
            grow(i, crop=crop_factory(), verbosity=0)
        grow(ids[0], crop=crop_factory(), verbosity=0)
        crop_factory().grow([ids[-1]], verbosity=0)


def make_crop_and_sow(f, d, case, combos, fn_args, cs, constants,
                      default_dir=False):
    import xyzpy as xyz

    constants = dict(constants) if constants else None

    kind = case["kind"]
    kws = {}
    if case["mode"] != "default":
        kws[case["mode"]] = case["req"]
    if case["swhere"] == "ctor":
        kws["shuffle"] = case["sval"]
    if default_dir:
        # (no parent_dir: the directory the user is in at this moment)
        crop = xyz.Crop(fn=f, name=NAME, **kws)
    else:
        crop = xyz.Crop(fn=f, name=NAME, parent_dir=d, **kws)
    skw = {}
    if case["swhere"] == "sow" and kind in ("grid", "mix"):
        skw["shuffle"] = case["sval"]
    dcombos = {a: v for a, v in combos} if combos else None
    if case.get("pre") and kind in ("grid", "mix"):
        # an earlier sweep through the same Crop object - another shuffle,
        # another constant - sown, looked at and grown but never reaped; its
        # results are still there when the crop is sown again below
        import copy

        pc = {"k": 9} if constants else None
        oldfn = core.pick([case, "oldfn"], 2) == 1
        if oldfn:
            # ... by another session, with an earlier version of the function
            # (the function is then corrected and the crop sown afresh)
            fx = f._xv
            crop = xyz.Crop(fn=xfn.make_fn(
                list(fx["args"]), kind=fx["kind"], name=fx["name"],
                version=1), name=NAME, parent_dir=d, **kws)
        crop.sow_combos(
            copy.deepcopy(dcombos), constants=pc, verbosity=0, shuffle=13,
            cases=[dict(zip(fn_args, c)) for c in cs] if kind == "mix"
            else None)
        crop.missing_results(), crop.num_sown_batches, str(crop)
        xyz.Crop(name=NAME, parent_dir=d).grow_missing(verbosity=0)
        crop.is_ready_to_reap()
        if oldfn:
            crop = xyz.Crop(fn=f, name=NAME, parent_dir=d, **kws)
    if constants and core.pick([kind, case["mode"], case["req"], case["n"],
                                "constform"], 3) == 0:
        # (given as pairs from a one-shot iterator, as combo_runner accepts)
        constants = zip(list(constants), list(constants.values()))
    elif constants and core.pick([kind, case["mode"], case["req"], case["n"],
                                  "constform"], 3) == 1:
        constants = tuple(constants.items())
    if kind == "grid":
        crop.sow_combos(dcombos, constants=constants, verbosity=0, **skw)
    elif kind == "mix":
        crop.sow_combos(dcombos, cases=[dict(zip(fn_args, c)) for c in cs],
                        constants=constants, verbosity=0, **skw)
    elif kind == "mix2":
        crop.sow_cases(fn_args, [tuple(c) for c in cs], constants=constants,
                       combos=tuple((a, list(v)) for a, v in combos),
                       verbosity=0)
    elif kind == "cases":
        crop.sow_cases(fn_args, [tuple(c) for c in cs], constants=constants,
                       verbosity=0)
    else:
        crop.sow_cases(None, [dict(zip(fn_args, c)) for c in cs],
                       constants=constants, verbosity=0)
    return crop


def setup_case(case):
    kind = {"casesdict": "cases"}.get(case["kind"], case["kind"])
    if kind == "mix2":
        # cases crossed with two sub-grid arguments that are not in
        # alphabetical order (through sow_cases)
        # (of different lengths: a raw reap carries no labels, so only the
        # shape tells the two axis orders apart)
        _, fn_args, cs = build_inputs(case["n"] // 6, "cases")
        combos = [["z", [2, 1]], ["c", [10, 30, 20]]]
    else:
        combos, fn_args, cs = build_inputs(case["n"], kind)
    argnames = list(fn_args or []) + [a for a, _ in (combos or [])]
    constants = {"k": 7} if case["const"] else None
    # signature order = case args then combo args (needed by sow_cases(None))
    f = xfn.make_fn(argnames + (["k"] if constants else []), kind="num",
                    name="f04", defaults={"k": 0} if constants else None)
    return kind, combos, fn_args, cs, argnames, constants, f


def check_case(case):
    import xyzpy as xyz

    if case.get("nptypes"):
        return check_nptypes(case)
    kind, combos, fn_args, cs, argnames, constants, f = setup_case(case)
    d = core.fresh_dir("c04")
    # (the crop's location may itself contain the words the crop's own
    # sub-directories and files are named with)
    sub = [None, "run[1]*", "results", "my batches/xyz-result-1"][
        core.pick([case, "dir"], 4)]
    if sub:
        d = os.path.join(d, sub)
        os.makedirs(d)
    vio = []

    def key(sym):
        return "C04|%s|%s|shuffle-%s|%s" % (case["kind"], case["mode"],
                                            case["swhere"], sym)

    want = direct_run(f, kind, combos, fn_args, cs, constants)
    # the crop is made without a parent_dir while the user is in d; the
    # later steps happen after a change of directory
    dd = core.pick([case, "defdir"], 5) == 0 and not case.get("pre")
    if dd:
        os.chdir(d)
    crop = make_crop_and_sow(f, d, case, combos, fn_args, cs, constants,
                             default_dir=dd)
    if dd:
        os.chdir(core.fresh_dir("c04elsewhere"))
    B = crop.num_batches
    rl = case["reload"]

    def factory():
        if rl in (1, 3):
            return xyz.Crop(name=NAME, parent_dir=d)
        return crop

    try:
        with xfn.CallLog() as log:
            grow_all(factory, B, case["order"], case["via"])
        rc = xyz.Crop(name=NAME, parent_dir=d) if rl in (2, 3) else crop
        got = rc.reap()
    except Exception as e:
        return {"nontrivial": case["n"] >= 2 and B >= 2,
                "outcome": "raised",
                "violations": [(key("raised:" + type(e).__name__),
                                "N=%d %s=%r order=%s via=%s: %r" % (
                                    case["n"], case["mode"], case["req"],
                                    case["order"], case["via"], e))]}
    # accepted axis orders: as given, or grid arguments sorted by name
    ncase = len(fn_args or [])
    cnames = [a for a, _ in (combos or [])]
    ident = tuple(range(ncase + len(cnames)))
    srt = tuple(range(ncase)) + tuple(
        ncase + cnames.index(a) for a in sorted(cnames))
    if not compare_nested(got, want, [ident, srt]):
        vio.append((key("wrong"),
                    "N=%d %s=%r shuffle=%r order=%s via=%s reload=%d: reaped "
                    "result differs from the direct run" % (
                        case["n"], case["mode"], case["req"], case["sval"],
                        case["order"], case["via"], rl)))
    if os.path.exists(crop.location):
        vio.append((key("not-cleaned"), "crop directory left after full reap"))
    return {"nontrivial": case["n"] >= 2 and B >= 2,
            "outcome": "B=%d" % B if not vio else "wrong", "violations": vio}


# --------------------------------------------------------------------------- #
# layer 2: BFS over grow histories


def bfs_configs(tier):
    out = []
    specs = [(3, "batchsize", 2, "grid", None, False),
             (4, "num_batches", 3, "cases", "ctor", True),
             (6, "batchsize", 2, "grid", "sow", True),
             (7, "num_batches", 4, "mix", "sow", 2)]
    if tier == "thorough":
        specs += [(5, "batchsize", 1, "casesdict", "ctor", 5),
                  (9, "num_batches", 5, "grid", "sow", True),
                  (8, "batchsize", 2, "mix", None, False)]
    for n, mode, req, kind, sw, sv in specs:
        out.append({"n": n, "mode": mode, "req": req, "kind": kind,
                    "swhere": sw, "sval": sv, "const": n % 2 == 0})
    return out


def bfs_events(B, tier):
    ev = [["grow", i] for i in range(1, B + 1)]
    ev += [["fgrow", i] for i in range(1, B + 1)]  # through a fresh Crop
    ids = list(range(1, B + 1))
    for k in range(2, (B if tier == "thorough" and B <= 4 else 2) + 1):
        ev += [["cgrow", list(s)] for s in itertools.combinations(ids, k)]
    ev += [["cgrow", [ids[-1], ids[0]]], ["grow_missing"]]
    return ev


def bfs_expand(task):
    import xyzpy as xyz
    from xyzpy.gen.cropping import grow

    cfg, hist = task
    tier = os.environ.get("XV_TIER", "quick")
    kind, combos, fn_args, cs, argnames, constants, f = setup_case(cfg)
    d = os.path.join(core.scratch_root(), "c04b")
    want = direct_run(f, kind, combos, fn_args, cs, constants)

    def build(h):
        core.fresh_dir("c04b")
        crop = make_crop_and_sow(f, d, cfg, combos, fn_args, cs, constants)
        for ev in h:
            apply(crop, ev)
        return crop

    def apply(crop, ev):
        if ev[0] == "grow":
            grow(ev[1], crop=crop, verbosity=0)
        elif ev[0] == "fgrow":
            grow(ev[1], crop=xyz.Crop(name=NAME, parent_dir=d), verbosity=0)
        elif ev[0] == "cgrow":
            crop.grow(ev[1], verbosity=0)
        elif ev[0] == "grow_missing":
            crop.grow_missing(verbosity=0)

    crop = build(hist)
    B = crop.num_batches
    out = {"hist": hist, "succ": []}
    if not hist:
        out["init_key"] = "%s|False" % fsseam.tree_hash(d)
    for n, ev in enumerate(bfs_events(B, tier)):
        if n:
            crop = build(hist)
        vio = []
        kname = "C04|bfs|%s|%s" % (cfg["kind"], ev[0])
        try:
            apply(crop, ev)
            # (state = the crop on disk + whether the long-lived Crop object
            # took part, since it may carry hidden state)
            keyh = "%s|%s" % (fsseam.tree_hash(d), any(
                e[0] != "fgrow" for e in hist + [ev]))
            fresh = xyz.Crop(name=NAME, parent_dir=d)
            if fresh.is_ready_to_reap():
                snap = fsseam.snapshot(d)
                ncase = len(fn_args or [])
                cnames = [a for a, _ in (combos or [])]
                ident = tuple(range(ncase + len(cnames)))
                srt = tuple(range(ncase)) + tuple(
                    ncase + cnames.index(a) for a in sorted(cnames))
                for who, c in (("live", crop), ("fresh", fresh)):
                    fsseam.restore(d, snap)
                    got = c.reap()
                    if not compare_nested(got, want, [ident, srt]):
                        vio.append((kname + "|wrong-" + who,
                                    "after history %r + %r the reaped result "
                                    "differs from the direct run"
                                    % (hist, ev)))
                fsseam.restore(d, snap)
                oc = "complete"
            else:
                oc = "partial"
        except Exception as e:
            vio.append((kname + "|raised:" + type(e).__name__,
                        "history %r + %r raised %r" % (hist, ev, e)))
            keyh, oc = None, "raised"
        out["succ"].append((ev, keyh, vio, oc))
    return out


# --------------------------------------------------------------------------- #
# conformance: real pools (main process) and real fresh processes


def pool_conformance(ctx):
    """parallel growing with the real loky pool: across batches
    (Crop.grow(num_workers=2)) and inside a batch (grow(i, num_workers=2)),
    the latter with a function whose first setting is the slowest"""
    import xyzpy as xyz
    from xyzpy.gen.cropping import grow

    d = core.fresh_dir("c04p")
    n = 0
    # (the signature lists the arguments in another order than the sorted
    # one they are sown in)
    slow = xfn.make_fn(["b", "a"], kind="num", name="f04s",
                       delay=("b", 0, 0.25))
    combos = {"a": [1, 2, 3], "b": [0, 1, 2, 3]}
    want = xyz.combo_runner(slow, combos, verbosity=0)
    for mode, via in ((("batchsize", 4), "inbatch"),
                      (("num_batches", 3), "across"),
                      (("batchsize", 5), "inbatch")):
        core.fresh_dir("c04p")
        crop = xyz.Crop(fn=slow, name=NAME, parent_dir=d, **{mode[0]: mode[1]})
        crop.sow_combos(combos, verbosity=0)
        try:
            if via == "inbatch":
                for i in range(1, crop.num_batches + 1):
                    grow(i, crop=xyz.Crop(name=NAME, parent_dir=d),
                         num_workers=2, verbosity=0)
            else:
                crop.grow(list(range(crop.num_batches, 0, -1)), num_workers=2,
                          verbosity=0)
            got = xyz.Crop(name=NAME, parent_dir=d).reap()
            ok = compare_nested(got, want, [(0, 1)])
        except Exception as e:
            ok = False
            got = repr(e)
        n += 1
        if not ok:
            ctx.violation("C04|pool|%s|wrong" % via,
                          "parallel growing (%s, %s=%d, num_workers=2) gave "
                          "%r" % (via, mode[0], mode[1], got),
                          {"pool": via, "mode": list(mode)})
    try:
        from joblib.externals.loky import get_reusable_executor

        get_reusable_executor().shutdown(wait=True)
    except Exception:
        pass
    return n


def process_conformance(task):
    """every step in its own python process that is given only the crop's
    name and directory"""
    case = task
    kind, combos, fn_args, cs, argnames, constants, f = setup_case(case)
    d = core.fresh_dir("c04x")
    want = direct_run(f, kind, combos, fn_args, cs, constants)
    crop = make_crop_and_sow(f, d, case, combos, fn_args, cs, constants)
    B = crop.num_batches
    env = dict(os.environ, PYTHONPATH=core.REPO)
    ids = list(range(B, 0, -1))
    code = ("import sys, xyzpy as xyz\n"
            "from xyzpy.gen.cropping import grow\n"
            "c = xyz.Crop(name=%r, parent_dir=%r)\n" % (NAME, d))
    for chunk in (ids[: len(ids) // 2], ids[len(ids) // 2:]):
        if not chunk:
            continue
        p = subprocess.run([sys.executable, "-c", code + "c.grow(%r, verbosity=0)"
                            % (chunk,)], env=env, capture_output=True)
        if p.returncode:
            return {"ok": False, "why": p.stderr.decode()[-300:], "case": case}
    out = os.path.join(d, "reaped.json")
    p = subprocess.run(
        [sys.executable, "-c", code
         + "import json, pickle\nr = c.reap()\n"
         + "pickle.dump(r, open(%r, 'wb'))" % out], env=env,
        capture_output=True)
    if p.returncode:
        return {"ok": False, "why": p.stderr.decode()[-300:], "case": case}
    import pickle

    got = pickle.load(open(out, "rb"))
    ncase = len(fn_args or [])
    cnames = [a for a, _ in (combos or [])]
    ident = tuple(range(ncase + len(cnames)))
    srt = tuple(range(ncase)) + tuple(
        ncase + cnames.index(a) for a in sorted(cnames))
    ok = compare_nested(got, want, [ident, srt])
    return {"ok": ok, "why": "reaped result differs from the direct run",
            "case": case}


_SCRIPT_SRC = """
def scripted(name):
    def _d():
        import builtins
        return builtins._xv_script[name].pop(0)
    return _d
"""
_sns = {"__name__": "__main__"}
exec(_SCRIPT_SRC, _sns)


def samples_case(task):
    """sow_samples / grow / reap against direct evaluation of the same draws"""
    import builtins
    import xyzpy as xyz
    from xyzpy.gen.cropping import grow

    n, bkw, rev, rl = task
    d = core.fresh_dir("c04s")
    f = xfn.make_fn(["a", "b"], kind="num", name="f04q")
    order = ("b", "a") if rev else ("a", "b")
    draws = [(1 + (i * 2) % 3, 10 * (1 + i % 2)) for i in range(n)]
    builtins._xv_script = {"a": [x[0] for x in draws],
                           "b": [x[1] for x in draws]}
    sampler = xyz.Sampler(xyz.Runner(f, var_names="out"),
                          default_combos={k: _sns["scripted"](k)
                                          for k in order})
    try:
        crop = sampler.Crop(name=NAME, parent_dir=d, **bkw)
        crop.sow_samples(n, verbosity=0)
        B = crop.num_batches
        for i in range(B, 0, -1):
            grow(i, crop=(xyz.Crop(name=NAME, parent_dir=d) if rl else crop),
                 verbosity=0)
        df = (xyz.Crop(name=NAME, parent_dir=d) if rl else crop).reap()
        got = sorted(cmp.row_key(r) for r in cmp.df_rows(df))
    except Exception as e:
        return {"ok": False, "why": "raised %r" % e, "task": list(task)}
    want = sorted(cmp.row_key({"a": a, "b": b,
                               "out": xfn.expected("num", dict(a=a, b=b))})
                  for a, b in draws)
    return {"ok": got == want, "task": list(task),
            "why": "reaped rows %r, drawn samples %r" % (got[:2], want[:2])}


def run(ctx):
    os.environ["XV_TIER"] = ctx.tier
    all_cases = list(cases(ctx.tier, ctx.seed))
    ctx.run_cases(all_cases)
    states = transitions = 0
    per = {}
    for cfg in bfs_configs(ctx.tier):
        r = histbfs.bfs(ctx, "bfs_expand", cfg, 10,
                        label="bfs-N%d-%s" % (cfg["n"], cfg["kind"]))
        states += r["states"]
        transitions += r["transitions"]
        per["N=%d %s=%d %s" % (cfg["n"], cfg["mode"], cfg["req"],
                               cfg["kind"])] = r
        if not r["fixpoint"]:
            ctx.exhaustive = False
    npool = pool_conformance(ctx)
    nproc = 3 if ctx.tier == "quick" else 40
    picks = [all_cases[(ctx.seed * 7919 + i * 104729) % len(all_cases)]
             for i in range(nproc)]
    bad = 0
    for r in ctx.map_unordered("process_conformance", picks):
        if not r["ok"]:
            bad += 1
            ctx.violation("C04|fresh-process|%s" % r["case"]["kind"],
                          "steps in separate processes: %s" % r["why"],
                          dict(r["case"], fresh_process=True))
    stasks = [(n, bkw, rev, rl) for n in (1, 3, 4)
              for bkw in ({"batchsize": 1}, {"batchsize": 2}, {"num_batches": 2})
              for rev in (False, True) for rl in (False, True)]
    for r in ctx.map_unordered("samples_case", stasks):
        ctx.evaluations += 1
        if not r["ok"]:
            ctx.violation("C04|sow_samples|%s" % (
                "choices-reordered" if r["task"][2] else "signature-order"),
                "sow_samples/grow/reap %r: %s" % (r["task"], r["why"]),
                {"samples": r["task"]})
    ctx.coverage_extra.update({
        "states": states, "transitions": transitions,
        "traces_validated_against_impl": transitions,
        "sow_samples_runs": len(stasks),
        "bfs_per_configuration": per,
        "layer1_configurations": len(all_cases),
        "pool_conformance_runs": npool,
        "fresh_process_conformance_runs": nproc,
        "explanation": "layer 1 = exhaustive lattice of sow configurations; "
        "layer 2 = BFS with the implementation as transition relation",
    })


def replay(case):
    if case.get("fresh_process"):
        r = process_conformance({k: v for k, v in case.items()
                                 if k != "fresh_process"})
        return [] if r["ok"] else [("C04|fresh-process|%s" % case["kind"],
                                    r["why"])]
    if "samples" in case:
        t = case["samples"]
        r = samples_case((t[0], t[1], t[2], t[3]))
        return [] if r["ok"] else [("C04|sow_samples|%s" % (
            "choices-reordered" if t[2] else "signature-order"), r["why"])]
    if "pool" in case:
        class C:
            def __init__(s):
                s.v = []

            def violation(s, k, w, c):
                s.v.append((k, w))
        c = C()
        pool_conformance(c)
        return c.v
    if "history" in case:
        r = bfs_expand((case["cfg"], case["history"][:-1]))
        return [v for ev, k, vio, oc in r["succ"] for v in vio
                if ev == case["history"][-1]]
    return check_case(case)["violations"]
