"""C03 - labelled outputs name every number correctly (Dataset and
DataFrame)."""
import itertools

from xv import core, cmp, fn as xfn
from xv.props.c01 import POOLS, ARGS, SubmitExecutor
from xv.props.c02 import UNIVERSES

ID = "C03"
LEVEL = "exploration"
RULE = (
    "grids (1-3 arguments x 1-3 values, typed unsorted pools) and case sets "
    "(subsets of 2x2 / 3x2 / 2x2x2 universes, optionally crossed with a "
    "sub-grid) x output descriptions (scalar, two scalars, 1-d array, array "
    "whose coordinate is a constant, scalar+array, 1-d+2-d arrays, two "
    "arrays sharing dims via a tuple key, Dataset / DataArray / dict results "
    "with var_names=None, constants+resources+attrs) in every accepted "
    "spelling x entry point (combo/case_runner_to_ds, *_to_df, "
    "Runner.run_combos/run_cases, label()-made Runner and Harvester) x "
    "{sequential, shuffle True/3, controlled executor completing in reverse}; "
    "every grid point is selected by label and compared; non-trivial = >= 2 "
    "settings"
)
ASSUMPTIONS = [
    "the function's value encodes exactly the keyword arguments it received, "
    "so a value identifies its own slot",
    "for Dataset / DataArray / dict results the internal dimensions are "
    "those of the returned object",
]


def descs():
    t3 = {"t": [10, 20, 30]}
    return {
        "scalar": dict(kind="num", vn=["out", ["out"], ("out",)], vd=[None],
                       vars={"out": ((), lambda v: v)}),
        "strout": dict(kind="str", vn=["out", ["out"]], vd=[None],
                       vars={"out": ((), lambda v: v)}),
        "two": dict(kind="tuple2", vn=[["x", "y"], ("x", "y")], vd=[None],
                    vars={"x": ((), lambda v: v[0]), "y": ((), lambda v: v[1])}),
        "arr1": dict(kind="array", vn=["out", ["out"]],
                     vd=["t", {"out": "t"}, {"out": ["t"]}, [["t"]]], vc=t3,
                     vars={"out": (("t",), lambda v: v)}),
        "arr1const": dict(kind="array", vn=["out"], vd=[{"out": ["t"]}],
                          constants={"t": [0.5, 1.5, 2.5]},
                          vars={"out": (("t",), lambda v: v)}),
        "mixed": dict(kind="numarr", vn=[["x", "y"]],
                      vd=[{"y": ["t"]}, {"y": "t"}, [[], ["t"]]],
                      vc={"t": [1, 2]},
                      vars={"x": ((), lambda v: v[0]),
                            "y": (("t",), lambda v: v[1])}),
        "arr2": dict(kind="arrarr", vn=[["x", "y"]],
                     vd=[{"x": ["t"], "y": ["u", "w"]},
                         [["t"], ["u", "w"]]],
                     vc={"t": [1, 2, 3], "u": [0, 1], "w": ["p", "q"]},
                     vars={"x": (("t",), lambda v: v[0]),
                           "y": (("u", "w"), lambda v: v[1])}),
        "same": dict(kind="arr3x2", vn=[["x", "y"]],
                     vd=[{("x", "y"): ["t"]}, {("x", "y"): "t"},
                         {"x": ["t"], "y": ["t"]}], vc=t3,
                     vars={"x": (("t",), lambda v: v[0]),
                           "y": (("t",), lambda v: v[1])}),
        "xds": dict(kind="dataset", vn=[None], vd=[None],
                    vars={"v": ((), lambda v: v["v"].values),
                          "w": (("t",), lambda v: v["w"].values)},
                    vc={"t": [10, 20]}, attrs={"note": "hello", "n": 3}),
        # (the labels of the internal dimension differ from result to result)
        "xds-tvar": dict(kind="dataset_tv", vn=[None], vd=[None], tvar=True,
                         vars={"v": ((), lambda v: v["v"].values),
                               "w": (("t",), lambda v: v["w"].values)}),
        "xds-const": dict(kind="dataset_nc", vn=[None], vd=[None],
                          constants={"t": [10, 20]},
                          vars={"v": ((), lambda v: v["v"].values),
                                "w": (("t",), lambda v: v["w"].values)}),
        # (each result carries a scalar coordinate of its own)
        "xds-ncoord": dict(kind="dataset_nd", vn=[None], vd=[None],
                           ncoord="norm",
                           vars={"v": ((), lambda v: v["v"].values),
                                 "w": (("t",), lambda v: v["w"].values)},
                           vc={"t": [10, 20]}),
        # (each result carries a scalar coordinate named like a swept
        # argument, with a value of its own: the sweep's labels are the
        # values swept)
        "xds-selfcoord": dict(kind="dataset_sa", vn=[None], vd=[None],
                              may_refuse=True,
                              vars={"v": ((), lambda v: v["v"].values),
                                    "w": (("t",), lambda v: v["w"].values)},
                              vc={"t": [10, 20]}),
        "xda": dict(kind="dataarray", vn=[None], vd=[None],
                    vars={"v": (("t",), lambda v: v.values)},
                    vc={"t": [10, 20]}),
        "xdict": dict(kind="dict", vn=[None], vd=[None],
                      vars={"v": ((), lambda v: v["v"]),
                            "w": ((), lambda v: v["w"])},
                      attrs={"note": "kept"}),
        "attrs": dict(kind="num", vn=["out"], vd=[None],
                      constants={"k": 7}, resources={"r": 9},
                      attrs={"note": "hello", "n": 3},
                      vars={"out": ((), lambda v: v)}),
        # values that are falsy but perfectly good constants / attributes
        "falsy": dict(kind="num", vn=["out"], vd=[None],
                      constants={"k": 0, "flag": False, "tag": ""},
                      resources={"r": 0},
                      attrs={"note": "", "n": 0},
                      vars={"out": ((), lambda v: v)}),
    }


DESCS = descs()
DF_OK = ("scalar", "strout", "two", "attrs", "falsy")


def inputs(tier):
    out = []
    smax = 3
    for k in (1, 2, 3):
        for shp in itertools.product(range(1, smax + 1), repeat=k):
            n = 1
            for s in shp:
                n *= s
            if n > (12 if tier == "quick" else 27):
                continue
            out.append(("grid", list(shp)))
    for u in ("2x2", "3x2", "2x2x2", "mixnum"):
        names, vals = UNIVERSES[u]
        pts = list(itertools.product(*vals))
        for size in (1, 2, 3):
            subs = list(itertools.combinations(range(len(pts)), size))
            if tier == "quick" and u != "mixnum":
                subs = subs[::3]
            for sub in subs:
                out.append(("cases", [u, list(sub)[::-1] if size % 2 else
                                      list(sub), 0]))
                if size == 2:
                    out.append(("cases", [u, list(sub), 1]))
    # one string-valued argument: the cases are handed over as bare values
    for sub in ([0], [2, 0], [1, 2, 0]):
        out.append(("cases", ["1s", sub, 0]))
        out.append(("cases", ["1s", sub, 1]))
    # an un-orderable (complex) argument with repeated values
    for sub in ([0, 6], [0, 1, 7], [3, 14, 5], [10, 4, 0, 13], [2, 0, 1, 4]):
        out.append(("cases", ["cplx", sub, 0]))
    return out


def cases(tier, seed):
    entries = ["to_ds", "runner", "label", "label-harvester", "to_df",
               "runner_df"]
    strats = ["seq", "shuffleT", "shuffle3", "exec"]
    j = 0
    ins = inputs(tier)
    if tier == "quick":
        # quick thins the *inputs*; every spelling of every description goes
        # through every entry point on the inputs that remain
        # (the small mixed-type universe is kept whole)
        ins = [x for i, x in enumerate(ins)
               if core.pick([x, "in"], 4) == 0
               or (x[0] == "cases" and x[1][0] in ("mixnum", "cplx", "1s")
                   and x[1][2] == 0)]
    for ii, ((ik, ispec), (dname, d)) in enumerate(
            itertools.product(ins, DESCS.items())):
        spell = list(itertools.product(range(len(d["vn"])), range(len(d["vd"]))))
        for si, (vni, vdi) in enumerate(spell):
            j += 1
            for ei, entry in enumerate(entries):
                if entry in ("to_df", "runner_df") and dname not in DF_OK:
                    continue
                if entry in ("to_df", "runner_df") and ik == "cases" and \
                        ispec[0] == "cplx":
                    # (a complex column makes pandas store the whole table
                    # as complex numbers: equal values, other types - the
                    # Dataset forms carry this universe)
                    continue
                yield {"input": ik, "spec": ispec, "desc": dname, "vn": vni,
                       "vd": vdi, "entry": entry,
                       # the same Runner was used before, with a constant
                       # overridden for that run only
                       "prev_override": (dname in ("attrs", "falsy")
                                         and entry in ("runner", "label",
                                                       "runner_df")
                                         and (ii // len(DESCS) + ei) % 2 == 0),
                       "dictcases": j % 3 == 1,
                       # the functional interface called twice with the very
                       # same description objects; the second call is judged
                       "twice": core.pick([ik, ispec, dname, vni, vdi, entry,
                                           "tw"], 3) == 0,
                       # swept values handed over as one-shot generators
                       "valgen": core.pick([ik, ispec, dname, vni, vdi, entry,
                                            "vg"], 4) == 0,
                       "sigrev": (ii // len(DESCS) + ei + si) % 3 == 0,
                       "strat": strats[(j + ei) % 4],
                       "types": "ifs"[j % 3] + "sfi"[(j // 2) % 3]
                       + "fis"[(j // 5) % 3]}


def worker_init():
    import xyzpy  # noqa


def check_case(case):
    import numpy as np
    import xyzpy as xyz

    d = DESCS[case["desc"]]
    kind = d["kind"]
    consts = dict(d.get("constants") or {})
    res = dict(d.get("resources") or {})
    attrs = dict(d.get("attrs") or {})
    extra = sorted(consts) + sorted(res)
    # ---- inputs -------------------------------------------------------------
    if case["input"] == "grid":
        shp = case["spec"]
        names = ARGS[: len(shp)]
        vals = [POOLS[t][:s] for t, s in zip(case["types"], shp)]
        combos = dict(zip(names, vals))
        cs = None
        settings = [dict(zip(names, p)) for p in itertools.product(*vals)]
        coords = dict(zip(names, vals))
        dim_order = list(names)
    else:
        u, sub, sg = case["spec"]
        cnames, cvals = UNIVERSES[u]
        pts = list(itertools.product(*cvals))
        chosen = [pts[i] for i in sub]
        gsub = [("z", [7, 5])] if sg else []
        names = list(cnames) + [a for a, _ in gsub]
        combos = dict(gsub) if gsub else None
        cs = [tuple(c) for c in chosen]
        # (a single argument: bare values instead of 1-tuples)
        cs_arg = [c[0] for c in cs] if len(cnames) == 1 else cs
        gp = list(itertools.product(*[v for _, v in gsub]))
        settings = [dict(zip(names, c + g)) for c in chosen for g in gp]
        def union(vals_):
            try:
                return sorted(set(vals_))
            except TypeError:
                # (values that cannot be ordered: the union in any order)
                return list(dict.fromkeys(vals_))

        coords = {a: union([c[i] for c in chosen])
                  for i, a in enumerate(cnames)}
        coords.update(dict(gsub))
        dim_order = list(names)
    # (with "sigrev" the function's own signature lists the arguments in the
    # opposite order to the one the Runner is told)
    sigrev = bool(case.get("sigrev"))
    # (with "kwonly" the last case argument - and everything after it - is a
    # keyword-only parameter, and the argument names are inferred)
    kwonly = cs is not None and len(cnames) >= 2 and not sigrev and \
        case["entry"] in ("to_ds", "to_df", "runner", "runner_df") and \
        not case.get("dictcases") and not case.get("prev_override") and \
        core.pick([case["spec"], case["desc"], case["entry"], "kwo"], 3) == 0
    f = xfn.make_fn((names[::-1] if sigrev else names) + extra, kind=kind,
                    name="f03", defaults={e: None for e in extra},
                    kwonly=(cnames[-1],) if kwonly else ())
    vn, vd = d["vn"][case["vn"]], d["vd"][case["vd"]]
    vc = d.get("vc") if d["vn"][0] is not None else None
    entry, strat = case["entry"], case["strat"]
    kw = dict(verbosity=0)
    if strat == "shuffleT":
        kw["shuffle"] = True
    elif strat == "shuffle3":
        kw["shuffle"] = 3
    elif strat == "exec":
        kw["executor"] = SubmitExecutor(list(range(len(settings)))[::-1])
    vio = []

    def key(sym):
        return "C03|%s|%s|%s|%s" % (entry, case["desc"], case["input"], sym)

    import copy

    # (private copies: the library must not share mutable objects with the
    # oracle)
    desc_kw = copy.deepcopy(dict(
        var_names=vn, var_dims=vd, var_coords=vc, constants=consts or None,
        resources=res or None, attrs=attrs or None))
    to_df = entry in ("to_df", "runner_df")
    last = None
    # a constant the Runner stores is given again, with another value, for
    # the judged run only: that value is used and recorded
    okw = {}
    if entry in ("runner", "runner_df", "label") and "k" in consts and \
            not case.get("prev_override") and core.pick(
                [case["spec"], case["desc"], entry, case["vn"], "ovr"], 2) == 0:
        okw = {"constants": {"k": 5}}
        consts["k"] = 5
    # the Runner's output names re-assigned (in the other order) after it was
    # built: the function's first output then carries the new first name
    renamed = entry in ("runner", "runner_df") and case["desc"] in (
        "two", "same") and core.pick([case["spec"], case["desc"], entry,
                                      case["vn"], "ren"], 2) == 0
    dvars = dict(d["vars"])
    if renamed:
        (n0, v0), (n1, v1) = list(d["vars"].items())
        dvars = {n1: v0, n0: v1}

    def subgrid():
        # the sub-grid next to a case list, for the Runner methods: a mapping
        # or a tuple of pairs
        if not combos:
            return ()
        if core.pick([case["spec"], case["desc"], case["entry"], "sg"], 2):
            return combos
        return tuple(combos.items())

    if case.get("valgen") and combos and not case.get("prev_override") \
            and not (cs is not None and case.get("dictcases")):
        combos = {a: (x for x in v) for a, v in combos.items()}
    try:
        with xfn.CallLog() as log:
            if entry in ("to_ds", "to_df"):
                if case.get("twice") and not isinstance(
                        next(iter((combos or {"_": []}).values())),
                        type(x for x in ())):
                    with xfn.CallLog():
                        pk = {k_: v_ for k_, v_ in kw.items()
                              if k_ != "executor"}
                        if cs is None:
                            xyz.combo_runner_to_ds(f, combos, to_df=to_df,
                                                   **desc_kw, **pk)
                        else:
                            xyz.case_runner_to_ds(
                                f, list(cnames), cs_arg, combos=combos,
                                to_df=to_df, **desc_kw, **pk)
                if cs is None:
                    out = xyz.combo_runner_to_ds(f, combos, to_df=to_df,
                                                 **desc_kw, **kw)
                elif case.get("dictcases"):
                    dcs = []
                    for n_, c_ in enumerate(cs):
                        items = list(zip(cnames, c_))
                        r_ = n_ % len(items)
                        dcs.append(dict(items[r_:] + items[:r_]))
                    # (the caller sweeps the very same list of case dicts
                    # twice; the second sweep is the one judged)
                    with xfn.CallLog():
                        xyz.case_runner_to_ds(
                            f, None, dcs, combos=copy.deepcopy(combos),
                            to_df=to_df, **copy.deepcopy(desc_kw),
                            **{k_: v_ for k_, v_ in kw.items()
                               if k_ != "executor"})
                    out = xyz.case_runner_to_ds(
                        f, None, dcs, combos=combos, to_df=to_df,
                        **desc_kw, **kw)
                else:
                    out = xyz.case_runner_to_ds(
                        f, None if kwonly else list(cnames), cs_arg,
                        combos=combos, to_df=to_df, **desc_kw, **kw)
            else:
                fkw = {"fn_args": list(names)} if sigrev else {}
                if entry.startswith("label"):
                    far = xyz.label(harvester=(entry == "label-harvester"),
                                    **fkw, **desc_kw)(f)
                else:
                    far = xyz.Runner(f, **fkw, **desc_kw)
                    if renamed:
                        far.var_names = list(vn)[::-1]
                runner = far.runner if entry == "label-harvester" else far
                if case.get("prev_override"):
                    with xfn.CallLog():
                        pk = {k_: v_ for k_, v_ in kw.items()
                              if k_ != "executor"}
                        if cs is None:
                            # (that run also asked for a table)
                            runner.run_combos(combos, constants={"k": 5},
                                              to_df=True, **pk)
                        else:
                            # (argument names given for that run only, in
                            # the opposite order)
                            runner.run_cases([tuple(cs[0][::-1])],
                                             fn_args=list(cnames)[::-1],
                                             constants={"k": 5},
                                             combos=subgrid(), **pk)
                if entry == "runner_df":
                    kw["to_df"] = True
                if entry == "label-harvester":
                    if cs is None:
                        far.harvest_combos(combos, **kw)
                    else:
                        far.harvest_cases(cs_arg, fn_args=None if sigrev
                                          else list(cnames),
                                          combos=subgrid(), **kw)
                    out = far.full_ds
                    last = far.last_ds
                else:
                    if cs is None:
                        out = runner.run_combos(combos, **okw, **kw)
                    else:
                        out = runner.run_cases(cs_arg, fn_args=None if (
                            sigrev or kwonly or case.get("prev_override"))
                                               else list(cnames),
                                               combos=subgrid(), **okw,
                                               **kw)
                    last = runner._last_ds if not to_df else None
                    if not to_df and last is not out:
                        vio.append((key("last_ds"),
                                    "Runner.last_ds is not the returned "
                                    "object"))
    except core.HarnessError:
        raise
    except Exception as e:
        if d.get("may_refuse") and isinstance(e, ValueError):
            # (results that contradict the sweep's own labels may be refused;
            # accepted, they have to be labelled with the values swept)
            return {"nontrivial": False, "outcome": "refused",
                    "violations": []}
        return {"nontrivial": len(settings) >= 2, "outcome": "raised",
                "violations": [(key("raised:" + type(e).__name__),
                                "input %r spelling vn=%r vd=%r strat=%s: %r"
                                % (case["spec"], vn, vd, strat, e))]}
    want_calls = sorted(xfn.enc(dict(s, **consts, **res)) for s in settings)
    if sorted(log.encs()) != want_calls:
        vio.append((key("calls"), "function was not called exactly once per "
                    "setting with constants and resources"))
    full = {xfn.enc(dict(s, **consts, **res)): s for s in settings}

    def value(s):
        return xfn.expected(kind, dict(s, **consts, **res))

    # ---- DataFrame ----------------------------------------------------------
    if to_df:
        rows = cmp.df_rows(out)
        if len(rows) != len(settings):
            vio.append((key("df-rows"), "%d rows for %d settings"
                        % (len(rows), len(settings))))
        seen = []
        for r in rows:
            s = {a: r.get(a) for a in names}
            seen.append(xfn.enc(s))
            v = value(s)
            for var, (dims, get) in dvars.items():
                if r.get(var) != get(v):
                    vio.append((key("df-pairing"),
                                "row with arguments %r holds %s=%r (strat %s)"
                                % (s, var, r.get(var), strat)))
                    break
            for c, cv in consts.items():
                if r.get(c) != cv:
                    vio.append((key("df-const"), "constant %s=%r not in row "
                                "%r" % (c, cv, r)))
            for a_, av in attrs.items():
                if r.get(a_) != av:
                    vio.append((key("df-attr"), "attribute %s missing in row"
                                % a_))
            for rname in res:
                if rname in r:
                    vio.append((key("df-resource"), "resource %r recorded in "
                                "the DataFrame" % rname))
        if sorted(seen) != sorted(xfn.enc(s) for s in settings):
            vio.append((key("df-settings"), "rows do not correspond one to "
                        "one to the evaluated settings"))
        return fin(case, vio, len(settings))
    # ---- Dataset -------------------------------------------------------------
    ds = out
    import xarray as xr

    if not isinstance(ds, (xr.Dataset, xr.DataArray)):
        vio.append((key("output-type"), "expected a labelled Dataset, got a "
                    "%s" % type(ds).__name__))
        return fin(case, vio, len(settings))
    if isinstance(ds, xr.DataArray):
        # (a sweep of DataArray results gives a labelled DataArray)
        ds = ds.to_dataset(name=ds.name or "v")
    for a in dim_order:
        if a not in ds.dims:
            vio.append((key("dims"), "swept argument %r is not a dimension "
                        "(dims %r)" % (a, dict(ds.sizes))))
            return fin(case, vio, len(settings))
        got = ds[a].values.tolist()
        unordered = any(isinstance(v_, complex) for v_ in coords[a])
        if unordered and len(got) == len(coords[a]) and \
                set(got) == set(coords[a]):
            # (no order is defined: use the one found for the comparisons
            # below - every value exactly once was just checked)
            coords[a] = got
        if got != list(coords[a]):
            vio.append((key("coords"), "coordinate %r is %r, swept %r (%s)"
                        % (a, got, coords[a], "given order" if cs is None
                           or a not in coords else "sorted union")))
    if d.get("ncoord") and d["ncoord"] in ds.coords:
        # the results' own scalar coordinate, location by location
        nc = d["ncoord"]
        for labels in itertools.product(*[coords[a] for a in dim_order]):
            s_ = dict(zip(dim_order, labels))
            if xfn.enc(dict(s_, **consts, **res)) not in full:
                continue
            # (along an argument with a single value the coordinate need
            # not have been given that dimension)
            try:
                got_c = ds[nc].sel({k_: v_ for k_, v_ in s_.items()
                                    if k_ in ds[nc].dims}).values
            except (KeyError, ValueError, TypeError):
                vio.append((key("label-missing"), "coordinate %r has no entry "
                            "labelled %r" % (nc, s_)))
                break
            want_c = value(s_)[nc].values
            if not np.array_equal(got_c, want_c):
                vio.append((key("result-coord"), "coordinate %r at %r: the "
                            "dataset has %r, the function returned %r"
                            % (nc, s_, got_c.tolist(), want_c.tolist())))
                break
    elif d.get("ncoord"):
        vio.append((key("result-coord"), "the results' coordinate %r is not "
                    "in the dataset" % d["ncoord"]))
    for var, (idims, get) in dvars.items():
        if var not in ds.data_vars:
            vio.append((key("vars"), "variable %r missing (%r)"
                        % (var, list(ds.data_vars))))
            continue
        if tuple(ds[var].dims) != tuple(dim_order) + tuple(idims):
            vio.append((key("var-dims"), "%s has dims %r, expected %r"
                        % (var, ds[var].dims, tuple(dim_order) + tuple(idims))))
            continue
        for idim in idims:
            src = consts.get(idim, (d.get("vc") or {}).get(idim))
            if src is not None and (idim not in ds.coords or
                                    ds[idim].values.tolist() != list(src)):
                vio.append((key("internal-coord"),
                            "internal dimension %r has coordinate %r, "
                            "declared %r" % (idim, ds[idim].values.tolist()
                                             if idim in ds.coords else None,
                                             src)))
        npts = 0
        for labels in itertools.product(*[coords[a] for a in dim_order]):
            s = dict(zip(dim_order, labels))
            try:
                cell = ds[var].sel(s).values
            except (KeyError, ValueError, TypeError):
                # (a coordinate of another type than the swept values cannot
                # even be asked for them)
                vio.append((key("label-missing"), "%s has no entry labelled "
                            "%r" % (var, s)))
                break
            if d.get("tvar") and idims and \
                    xfn.enc(dict(s, **consts, **res)) in full:
                # each result brings its own labels along the internal
                # dimension: its numbers sit at those, nothing at the others
                R = value(s)
                own = R["t"].values.tolist()
                da = ds[var].sel(s)
                try:
                    got_own = da.sel(t=own).values
                except KeyError:
                    vio.append((key("label-missing"), "%s.sel(%r) has no "
                                "labels t=%r" % (var, s, own)))
                    break
                rest = [t_ for t_ in ds["t"].values.tolist() if t_ not in own]
                if not np.array_equal(got_own, R[var].values) or (
                        rest and not np.isnan(da.sel(t=rest).values).all()):
                    vio.append((key("value"), "%s.sel(%r) is %r over t=%r, "
                                "the function returned %r at t=%r (strat %s)"
                                % (var, s, da.values.tolist(),
                                   ds["t"].values.tolist(),
                                   R[var].values.tolist(), own, strat)))
                    break
                npts += 1
                continue
            if xfn.enc(dict(s, **consts, **res)) in full:
                w = np.asarray(get(value(s)))
                if cell.shape != w.shape or not np.array_equal(cell, w):
                    vio.append((key("value"), "%s.sel(%r) = %r, function "
                                "returned %r (strat %s)" % (
                                    var, s, cell.tolist(), w.tolist(), strat)))
                    break
                npts += 1
            else:
                if not cmp.leaf_missing(cell if cell.ndim else cell.item()):
                    vio.append((key("not-missing"), "%s.sel(%r) holds %r for "
                                "a setting that was never run"
                                % (var, s, cell.tolist())))
                    break
    for c, cv in consts.items():
        if c in [i for v in d["vars"].values() for i in v[0]]:
            if c in ds.attrs:
                vio.append((key("const-dim-attr"), "constant %r names a "
                            "dimension but is stored as attribute" % c))
        else:
            if ds.attrs.get(c) != cv:
                vio.append((key("const-attr"), "constant %s=%r is not an "
                            "attribute (attrs %r)" % (c, cv, dict(ds.attrs))))
    for rname in res:
        if rname in ds.attrs or rname in ds.coords or rname in ds.data_vars:
            vio.append((key("resource-recorded"), "resource %r was recorded"
                        % rname))
    for a_, av in attrs.items():
        if ds.attrs.get(a_) != av:
            vio.append((key("attrs"), "attribute %s=%r lost (attrs %r)"
                        % (a_, av, dict(ds.attrs))))
    return fin(case, vio, len(settings))


def fin(case, vio, n):
    return {"nontrivial": n >= 2,
            "outcome": "%s:%s" % (case["entry"], "ok" if not vio else "bad"),
            "violations": vio}
