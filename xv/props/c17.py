"""C17 - classic line, scatter, histogram and heat-map plots draw exactly the
data (matplotlib backend, Agg; artists are read back from the Figure)."""
import itertools

from xv import core

ID = "C17"
LEVEL = "exploration"
RULE = (
    "datasets x(1-3) x z(1-3; numeric and str; up to 12 series so that the "
    "legend -> colour-bar switch at 11 is crossed) x optional row / col "
    "dimensions of size 2; every NaN mask of <= 2 holes (thorough: every "
    "mask over the <= 9 cells) plus inf cells, all-NaN series and all-NaN "
    "datasets; y as one or several variables, y_err / x_err, c variable; "
    "kinds lineplot, scatter, histogram, heatmap and their auto_* forms; "
    "options one at a time and in pairs; every drawn artist is compared with "
    "a numpy recomputation; non-trivial = >= 2 series or >= 2 panels"
)
ASSUMPTIONS = [
    "colorbar=True is only generated together with a colour mapping "
    "(colors=True or c=); padding / xlims / ylims are outside the property's "
    "option list; heat-map mesh axes are numeric, uniformly spaced and have "
    ">= 2 points",
    "fonts, tick placement and legend layout are not inspected",
    "stacked histograms are only required to draw (their normalisation is "
    "matplotlib's)",
]

XS = [1.0, 2.0, 4.0]
# row / column coordinates are deliberately not in ascending order
class _GridVals:
    """labels of the row / column grid: integers and strings, or (for half of
    the cases, chosen by a hash of the case) floats including 0.0, a multiple
    of ten and a fraction"""
    def __init__(self, plain, floats):
        self.plain, self.floats = plain, floats

    def vals(self):
        return self.floats if _GRID_FLOAT[0] else self.plain

    def __getitem__(self, i):
        return self.vals()[i]


_GRID_FLOAT = [False]
RV = _GridVals([20, 10], [10.0, 0.0])
QV = _GridVals(["v", "u"], [100.0, 2.5])


def _titled(text, name, want):
    """does the text name the coordinate value?  numbers may be written in
    any form that reads back as the value (4 decimals are enough)"""
    if not text.startswith(name + " = "):
        return False
    got = text[len(name) + 3:]
    if isinstance(want, float):
        try:
            return abs(float(got) - want) < 5e-5
        except ValueError:
            return False
    return got == str(want)
# (neither ascending nor descending: the first and last values are not the
# extremes of any prefix of length >= 3)
# (not monotonic; two values that only differ beyond the fourth decimal)
ZNUM = [2.0, 10.0, 0.512345, 0.512349, 12.5, 6.5, 3.0, 8.0, 9.5, 5.0, 11.0,
        7.0]
ZSTR = ["q", "p", "zz", "A", "b", "c", "d", "e", "f", "g", "h", "i"]
# integer labels that are not evenly spaced (coloured by value, not by rank)
ZINT = [2, 10, 1, 40, 12, 6, 3, 80, 9, 5, 11, 7]


def cases(tier, seed):
    j = 0
    sel = 0
    # ---- line / scatter -----------------------------------------------------
    optsets = [{}, {"colors": True}, {"colors": ["red", "blue", "green"]},
               {"colors": True, "colormap": "viridis"},
               {"colors": True, "colormap_log": True},
               {"colors": True, "colormap_reverse": True},
               {"colors": True, "colormap": "viridis",
                "colormap_reverse": True},
               {"markers": True}, {"markers": False}, {"lines": False},
               {"legend": True}, {"legend": False},
               {"colors": True, "colorbar": True}, {"xlog": True},
               {"ylog": True}, {"colors": True, "zlims": (0.0, 20.0)},
               {"colors": True, "zlims": (0.0, None)},
               {"colors": True, "zlims": (None, 20.0)},
               {"colors": True, "vmin": 1.0, "vmax": 4.0},
               {"colors": True, "vmin": 0.0, "vmax": 4.0},
               {"colors": True, "vmin": -4.0, "vmax": 0.0},
               {"xlog": True, "ylog": True}, {"colors": True, "legend": True},
               {"colors": True, "colorbar": True, "colormap": "viridis"}]
    for kind in ("lineplot", "scatter"):
        for nx, nz in itertools.product((1, 2, 3), (1, 2, 3)):
            cells = list(itertools.product(range(nx), range(nz)))
            masks = [[]] + [[c] for c in cells]
            masks += [list(p) for p in itertools.combinations(cells, 2)]
            if tier == "thorough":
                masks = [list(m) for k in range(len(cells) + 1)
                         for m in itertools.combinations(cells, k)]
            masks.append([(i, 0) for i in range(nx)])  # an all-NaN series
            masks.append(cells)  # everything NaN
            for mask in masks:
                for ztype, variant in itertools.product(
                        ("num", "str", "int"),
                        ("z", "multi", "yerr", "c", "grid", "xvar",
                         "xvar2d", "gridc")):
                    j += 1
                    hk = [kind, nx, nz, mask, ztype, variant]
                    if tier == "quick" and core.pick(hk + ["thin"], 4):
                        continue
                    if variant in ("multi", "xvar2d") and ztype != "num":
                        continue
                    inf = core.pick(hk + ["inf"], 5) == 0
                    for t in range(1 if tier == "quick" else 3):
                        # (the option set is picked by a hash of the rest of
                        # the case, so that it is not in lock-step with any
                        # of the other dimensions or with the thinning)
                        sel += 1
                        o = optsets[int(core.jhash(
                            [kind, nx, nz, mask, ztype, variant, t, sel]),
                            16) % len(optsets)]
                        if o.get("colormap_log") and (ztype == "str"
                                                      or nz < 2):
                            # (nothing to take the logarithm of: string
                            # labels are mapped to 0..1, one value is a point)
                            o = {"colors": True}
                        if variant == "multi" and o.get("colors") is True:
                            # (no z coordinate / c variable to map from)
                            o = {}
                        if variant == "xvar2d":
                            o = {k: v for k, v in o.items()
                                 if k in ("markers", "lines", "xlog", "ylog")}
                        if variant in ("c", "gridc") and o.get("colormap_log"):
                            # (the colour variable starts at zero: no log)
                            o = {}
                        if variant in ("c", "gridc") and "colors" in o:
                            o = {k: v for k, v in o.items() if k != "colors"}
                        yield {"kind": kind, "nx": nx, "nz": nz, "mask": mask,
                               "inf": inf, "ztype": ztype, "variant": variant,
                               "grid": ["row", "col", "both"][
                                   core.pick(hk + ["grid"], 3)]
                               if variant in ("grid", "gridc") else None,
                               "opts": o,
                               # a logarithmic x axis over x values that are
                               # not all positive
                               "negx": bool(o.get("xlog")) and nx >= 2 and
                               variant in ("z", "multi", "yerr", "grid") and
                               core.pick(hk + ["negx", t], 2) == 0,
                               "stored": core.pick(hk + ["stored", t], 3)}
        # many series: the legend -> colour bar switch
        for nz in ((10, 11) if tier == "quick" else (9, 10, 11, 12)):
            for o in ({}, {"colors": True}, {"colors": True, "legend": True}):
                for ztype in ("num", "str"):
                    yield {"kind": kind, "nx": 2, "nz": nz, "mask": [],
                           "inf": False, "ztype": ztype, "variant": "z",
                           "grid": None, "opts": o}
        # a label that occurs twice on the z coordinate: still one series per
        # entry, each with its own points
        for nz, ztype, variant, o in itertools.product(
                (3, 4), ("numdup", "strdup"), ("z", "yerr", "grid"),
                ({}, {"colors": True}, {"markers": True})):
            yield {"kind": kind, "nx": 3, "nz": nz, "mask": [(1, 1)],
                   "inf": False, "ztype": ztype, "variant": variant,
                   "grid": "col" if variant == "grid" else None, "opts": o}
        for o in ({}, {"colors": True}):
            for which in ("auto_1d", "auto_2d", "auto_2dx", "auto_2dx_sq"):
                yield {"kind": "auto_" + kind, "which": which, "opts": o}
    # ---- histogram ----------------------------------------------------------
    for nz, bins, holes, variant in itertools.product(
            (1, 2, 3), (30, 4, "edges"), (0, 1, "series"),
            ("z", "multi", "grid", "single")):
        for o in ({}, {"colors": True}, {"stacked": True},
                  # (a window on the x axis narrower than the data: what is
                  # binned does not depend on what is shown)
                  {"xlims": (2.0, 6.0)}):
            j += 1
            if tier == "quick" and core.pick(
                    ["hist", nz, bins, holes, variant, o], 2):
                continue
            if o.get("colors") is True and variant in ("multi", "single"):
                # (no z coordinate to map colours from)
                o = {"colors": ["green", "red", "blue"]}
            yield {"kind": "histogram", "nz": nz, "bins": bins, "holes": holes,
                   "variant": variant, "opts": o}
    yield {"kind": "auto_histogram", "opts": {}}
    # ---- heat map -----------------------------------------------------------
    for nx, ny in itertools.product((2, 3), (2, 3)):
        cells = list(itertools.product(range(ny), range(nx)))
        masks = [[]] + [[c] for c in cells]
        if tier == "thorough":
            masks += [list(p) for p in itertools.combinations(cells, 2)]
        masks.append(cells[:nx])
        for mask in masks:
            for o in ({}, {"colormap": "viridis"}, {"colorbar": False},
                      {"colormap_log": True}, {"vmin": 2.0, "vmax": 30.0},
                      {"colormap_log": True, "vmin": 2.0, "vmax": 300.0,
                       "nonpositive": True}):
                for grid in (None, "col", "both"):
                    j += 1
                    hk = ["heat", nx, ny, mask, o, grid]
                    if tier == "quick" and core.pick(hk + ["thin"], 3):
                        continue
                    # (the order the variable's dimensions are stored in)
                    yield {"kind": "heatmap", "nx": nx, "ny": ny, "mask": mask,
                           "grid": grid, "opts": o,
                           "order": core.pick(hk + ["order"], 3)}
    yield {"kind": "auto_heatmap", "opts": {}}


def worker_init():
    import matplotlib

    matplotlib.use("Agg")
    import xyzpy  # noqa


# --------------------------------------------------------------------------- #


# x values for a logarithmic x axis that cannot show all of them: the points
# are still the dataset's finite pairs (the axis hides what it cannot show)
XS_NEG = [-2.0, 0.0, 4.0]


def xs_of(case):
    return XS_NEG if case.get("negx") else XS


def yval(ix, iz, ir=0, iq=0, var=0):
    return 1.0 + ix + 10.0 * iz + 100.0 * ir + 1000.0 * iq + 0.25 * var


def make_line_ds(case):
    import numpy as np
    import xarray as xr

    nx, nz = case["nx"], case["nz"]
    grid = case.get("grid")
    nr = 2 if grid in ("row", "both") else 1
    nq = 2 if grid in ("col", "both") else 1
    zs = {"num": ZNUM, "str": ZSTR, "int": ZINT,
          "numdup": [2.0, 10.0, 10.0, 0.5], "strdup": ["q", "p", "p", "zz"]
          }[case["ztype"]][:nz]
    shape = (nx, nz, nr, nq)
    y = np.empty(shape)
    for idx in np.ndindex(*shape):
        y[idx] = yval(*idx)
    bad = np.inf if case.get("inf") else np.nan
    for (ix, iz) in case["mask"]:
        y[ix, iz] = bad
    dims = ["x", "z", "r", "q"]
    coords = {"x": xs_of(case)[:nx], "z": zs, "r": RV[:nr], "q": QV[:nq]}
    data = {"y": (dims, y)}
    ye = 0.1 + 0.01 * np.arange(y.size).reshape(shape)
    xe = 0.2 + 0.01 * np.arange(y.size).reshape(shape)
    # an error value may be missing where the point itself is fine
    ye[nx - 1, 0] = np.nan
    xe[0, nz - 1] = np.inf
    data["ye"] = (dims, ye)
    data["xe"] = (dims, xe)
    # x given by a variable over the same dimensions, stored in another order
    xv = np.empty(shape)
    for idx in np.ndindex(*shape):
        xv[idx] = xs_of(case)[idx[0]] + 0.01 * idx[1] + 0.001 * idx[2] \
            + 0.0001 * idx[3]
    data["xv"] = (["z", "x", "r", "q"], xv.transpose(1, 0, 2, 3))
    data["cline"] = (("z",), np.array([1.5 + 2.0 * i for i in range(nz)]))
    # (the smallest colour value is exactly zero)
    data["cpt"] = (dims, np.arange(y.size).reshape(shape) * 0.5)
    if case["variant"] == "multi":
        for v in range(nz):
            data["y%d" % v] = (["x", "r", "q"], y[:, v])
    ds = xr.Dataset(data, coords=coords)
    if nr == 1:
        ds = ds.isel(r=0, drop=True)
    if nq == 1:
        ds = ds.isel(q=0, drop=True)
    # the order the variables' dimensions are stored in is not the order the
    # plot is asked for
    st = case.get("stored", 0)
    if st:
        for v in list(ds.data_vars):
            dd = list(ds[v].dims)
            if len(dd) > 1:
                ds[v] = ds[v].transpose(*(dd[::-1] if st == 1
                                          else dd[1:] + dd[:1]))
    return ds, zs, nr, nq


def data_axes(fig):
    return [a for a in fig.axes if a.get_label() != "<colorbar>"]


def check_case(case):
    import matplotlib.pyplot as plt

    try:
        kind = case["kind"]
        _GRID_FLOAT[0] = core.pick([case, "gridfloat"], 2) == 0
        if core.pick([case, "prior"], 4) == 0:
            other_plots()
        if kind in ("lineplot", "scatter"):
            r = check_lines(case)
        elif kind.startswith("auto_"):
            r = check_auto(case)
        elif kind == "histogram":
            r = check_hist(case)
        else:
            r = check_heat(case)
    finally:
        plt.close("all")
    return r


def other_plots():
    """a fixed series of unrelated plots with assorted options, drawn in the
    same process before the plot that is judged (every plot is to be drawn
    from its own arguments only)"""
    import numpy as np
    import xarray as xr
    import xyzpy as xyz
    import matplotlib.pyplot as plt

    ds = xr.Dataset({"w": (("p", "q"), np.array([[1.0, 4.0], [2.0, 8.0],
                                                   [5.0, 16.0]])),
                     "e": (("p", "q"), np.full((3, 2), 0.5))},
                    coords={"p": [1.0, 2.0, 3.0], "q": [7, 9]})
    with core.Silence():
        xyz.lineplot(ds, "p", "w", "q", colors=True, colormap="viridis",
                     colormap_reverse=True, markers=True, xlog=True,
                     ylog=True, legend=False, vmin=-3.0, vmax=50.0,
                     y_err="e", return_fig=True)
        xyz.scatter(ds, "p", "w", "q", colors=["black", "orange"],
                    markers=False, xlims=(0, 9), ylims=(0, 99),
                    return_fig=True)
        xyz.heatmap(ds, "p", "q", "w", colormap="coolwarm", colormap_log=True,
                    vmin=0.5, vmax=99.0, colorbar=False, return_fig=True)
        xyz.histogram(ds, "w", "q", bins=3, stacked=True,
                      colors=["green", "red"], return_fig=True)
    plt.close("all")


def call_plot(key, fn, *a, **kw):
    """-> (fig, violation or None)"""
    try:
        with core.Silence():
            fig = fn(*a, **kw)
        return fig, None
    except core.HarnessError:
        raise
    except Exception as e:
        return None, (key("raised:" + type(e).__name__),
                      "%s(%s) raised %r" % (getattr(fn, "__name__", "plot"),
                                            ", ".join("%s=%r" % kv for kv in
                                                      kw.items()), e))


def oracle_cmap(name, reverse):
    """the colour map a name stands for, resolved without the library's own
    lookup function (only its table of custom maps is read)"""
    import matplotlib as mpl

    if name is None:
        try:
            import colorcet  # noqa
            name = "rainbow"
        except ImportError:
            name = "xyz"
    full = name + ("_r" if reverse else "")
    from xyzpy.plot.color import _XYZ_CMAPS

    if full in _XYZ_CMAPS:
        return _XYZ_CMAPS[full]
    try:
        import colorcet

        if name not in ("inferno", "coolwarm", "blues") and full in colorcet.cm:
            return colorcet.cm[full]
    except ImportError:
        pass
    return mpl.colormaps[full]


def expected_color(ds, case, opts, values, coo_values, string_z):
    """rgba per series for colors=True / c=..."""
    import numpy as np
    import matplotlib as mpl
    cmap = oracle_cmap(opts.get("colormap"),
                       opts.get("colormap_reverse", False))
    if string_z:
        return [cmap(v) for v in np.linspace(0, 1, len(values))]
    zl = opts.get("zlims", (None, None))
    vmin = opts.get("vmin", zl[0] if zl[0] is not None else min(coo_values))
    vmax = opts.get("vmax", zl[1] if zl[1] is not None else max(coo_values))
    norm = (mpl.colors.LogNorm if opts.get("colormap_log")
            else mpl.colors.Normalize)(vmin=vmin, vmax=vmax)
    return [cmap(norm(v)) for v in values]


def grid_labels(key, ax, ir, iq, nr, nq):
    """column titles sit on the top row only, row labels on the right-most
    column only; no other panel carries a coordinate of the grid"""
    vio = []
    if ir == 0 and nq == 2:
        if not _titled(ax.get_title(), "q", QV[iq]):
            vio.append((key("panel-title"), "panel (%d,%d) titled %r, "
                        "expected q = %r" % (ir, iq, ax.get_title(), QV[iq])))
    elif ax.get_title() != "":
        vio.append((key("panel-title"), "panel (%d,%d) titled %r, "
                    "expected none" % (ir, iq, ax.get_title())))
    lab = ax.get_ylabel()
    if nr == 2 and iq == nq - 1:
        if not _titled(lab, "r", RV[ir]):
            vio.append((key("panel-rowlabel"), "panel (%d,%d) labelled "
                        "%r, expected r = %r" % (ir, iq, lab, RV[ir])))
    elif lab.startswith("r = ") or lab.startswith("q = "):
        vio.append((key("panel-rowlabel"), "panel (%d,%d) labelled %r"
                    % (ir, iq, lab)))
    return vio


def check_lines(case):
    import numpy as np
    import xyzpy as xyz

    kind, variant, opts = case["kind"], case["variant"], dict(case["opts"])
    ds, zs, nr, nq = make_line_ds(case)
    before = ds.copy(deep=True)
    nx, nz = case["nx"], case["nz"]
    vio = []

    def key(sym):
        return "C17|%s|%s|%s" % (kind, variant, sym)

    fn = getattr(xyz, kind)
    kw = dict(opts)
    if variant == "xvar2d":
        # nothing to iterate over: x and y are two 2-d variables over the same
        # dimensions (stored in different orders); one series of all points
        fig, err = call_plot(key, fn, ds, "xv", "y")
        if err:
            return fin(case, [err])
        if not ds.identical(before):
            vio.append((key("dataset-modified"), "plotting changed the "
                        "dataset"))
        ax = data_axes(fig)[0]
        if kind == "lineplot":
            got = [np.column_stack([a.get_xdata(), a.get_ydata()])
                   for a in ax.lines if len(a.get_xdata())]
        else:
            got = [np.asarray(a.get_offsets()).reshape(-1, 2)
                   for a in ax.collections]
        got = np.concatenate(got) if got else np.empty((0, 2))
        canon = [d_ for d_ in ("x", "z") if d_ in before["y"].dims]
        yv = before["y"].transpose(*canon).values.ravel()
        xv_ = before["xv"].transpose(*canon).values.ravel()
        ok = np.isfinite(yv) & np.isfinite(xv_)
        want = sorted(zip(xv_[ok].tolist(), yv[ok].tolist()))
        if sorted(map(tuple, got.tolist())) != want:
            vio.append((key("points"), "drawn points %r are not the (x, y) "
                        "pairs of the dataset %r" % (
                            sorted(map(tuple, got.tolist()))[:4], want[:4])))
        return fin(case, vio, len(want) >= 2)
    if variant == "multi":
        args = (ds, "x", tuple("y%d" % v for v in range(nz)))
        labels = ["y%d" % v for v in range(nz)]
    elif variant == "xvar":
        args = (ds, "xv", "y", "z")
        labels = [str(z) for z in zs]
    else:
        args = (ds, "x", "y", "z")
        labels = [str(z) for z in zs]
    if variant == "yerr":
        kw["y_err"] = "ye"
        if nx > 1:
            kw["x_err"] = "xe"
    isc = variant in ("c", "gridc")
    if isc:
        kw["c"] = "cline" if kind == "lineplot" else "cpt"
    grid = case.get("grid")
    if grid in ("row", "both"):
        kw["row"] = "r"
    if grid in ("col", "both"):
        kw["col"] = "q"
    fig, err = call_plot(key, fn, *args, **kw)
    if err:
        return fin(case, [err])
    if not ds.identical(before):
        vio.append((key("dataset-modified"), "plotting changed the dataset"))
    axes = data_axes(fig)
    if len(axes) != nr * nq:
        vio.append((key("panels"), "%d panels for a %dx%d grid"
                    % (len(axes), nr, nq)))
        return fin(case, vio)
    canon = [d_ for d_ in ("x", "z", "r", "q") if d_ in before["y"].dims]
    yarr = before["y"].transpose(*canon).values.reshape(
        (nx, nz) + ((2,) if nr == 2 else ()) + ((2,) if nq == 2 else ()))
    for ir in range(nr):
        for iq in range(nq):
            ax = axes[ir * nq + iq]
            if grid:
                vio += grid_labels(key, ax, ir, iq, nr, nq)
            # drawn series
            if kind == "lineplot":
                if variant == "yerr":
                    arts = [c.lines[0] for c in ax.containers]
                    labs = [c.get_label() for c in ax.containers]
                else:
                    arts = list(ax.lines)
                    labs = [a.get_label() for a in arts]
                pts = [np.column_stack([a.get_xdata(), a.get_ydata()])
                       if len(a.get_xdata()) else np.empty((0, 2))
                       for a in arts]
            else:
                arts = list(ax.collections)
                labs = [a.get_label() for a in arts]
                pts = [np.asarray(a.get_offsets()).reshape(-1, 2) for a in arts]
            if len(arts) != nz:
                vio.append((key("series-count"), "%d drawn series for %d %s"
                            % (len(arts), nz, "variables" if variant == "multi"
                               else "z values")))
                continue
            for iz in range(nz):
                sl = (slice(None), iz) + ((ir,) if nr == 2 else ()) + (
                    (iq,) if nq == 2 else ())
                yy = yarr[sl]
                xx = np.array(xs_of(case)[:nx])
                if variant == "xvar":
                    xx = before["xv"].transpose(*canon).values.reshape(
                        yarr.shape)[sl]
                ok = np.isfinite(yy) & np.isfinite(xx)
                want = np.column_stack([xx[ok], yy[ok]])
                got = pts[iz]
                if got.shape != want.shape or not np.array_equal(got, want):
                    vio.append((key("points"),
                                "series %d (%s) of panel (%d,%d): drawn %r, "
                                "data %r (mask %r)" % (
                                    iz, labels[iz], ir, iq, got.tolist(),
                                    want.tolist(), case["mask"])))
                    break
                if labs[iz] != labels[iz] and not (nz == 1 and False):
                    if not (variant != "multi" and False):
                        vio.append((key("label"), "series %d labelled %r, "
                                    "expected %r" % (iz, labs[iz], labels[iz])))
                        break
            # colours
            if (opts.get("colors") is True or isc) and \
                    kind == "lineplot" and len(arts) == nz:
                if isc:
                    cv = before["cline"].values.tolist()
                    exp = expected_color(ds, case, opts, cv, cv, False)
                else:
                    string_z = case["ztype"] in ("str", "strdup") and variant != "multi"
                    exp = expected_color(ds, case, opts, list(zs), list(zs),
                                         string_z)
                import matplotlib.colors as mc

                for iz in range(nz):
                    got = mc.to_rgba(arts[iz].get_color())
                    if not np.allclose(got, exp[iz], atol=1e-6):
                        vio.append((key("colour"),
                                    "series %d colour %r, expected colour map "
                                    "at its normalised value %r (opts %r)"
                                    % (iz, got, tuple(exp[iz]), opts)))
                        break
            if isc and kind == "scatter" and len(arts) == nz:
                cvals = before["cpt"].transpose(*canon).values
                lo, hi = float(np.nanmin(cvals)), float(np.nanmax(cvals))
                for iz in range(nz):
                    a = arts[iz]
                    sl = (slice(None), iz) + ((ir,) if nr == 2 else ()) + (
                        (iq,) if nq == 2 else ())
                    ok = np.isfinite(yarr[sl])
                    carr = np.asarray(a.get_array())
                    wantc = cvals.reshape(yarr.shape)[sl][ok]
                    if carr.shape != wantc.shape or not np.array_equal(
                            carr, wantc):
                        vio.append((key("scatter-c"), "series %d colour "
                                    "values %r, data %r" % (iz, carr.tolist(),
                                                            wantc.tolist())))
                        break
                    # (a single value has no normalised position: skip)
                    if len(wantc) and lo < hi:
                        a.update_scalarmappable()
                        fc = a.get_facecolors()
                        exp = expected_color(
                            ds, case, opts, wantc.tolist(), [lo, hi], False)
                        if len(fc) == len(exp) and not np.allclose(
                                fc[:, :3], np.array(exp)[:, :3], atol=1e-6):
                            vio.append((key("scatter-colour"),
                                        "series %d: point colours are not the "
                                        "colour map at the globally normalised "
                                        "value" % iz))
                            break
    return fin(case, vio, nz >= 2 or nr * nq >= 2)


def check_auto(case):
    import numpy as np
    import xyzpy as xyz

    kind, opts = case["kind"], dict(case["opts"])
    vio = []

    def key(sym):
        return "C17|%s|%s" % (kind, sym)

    if kind in ("auto_lineplot", "auto_scatter"):
        x = np.array(XS)
        xrows = None
        if case["which"] == "auto_1d":
            y = np.array([3.0, np.nan, 5.0])
            rows = [y]
        elif case["which"] in ("auto_2dx", "auto_2dx_sq"):
            # x given per series as well (as many series as points: square)
            ns = 3 if case["which"] == "auto_2dx_sq" else 2
            y = np.array([[3.0, 4.0, 5.0], [6.0, np.nan, 8.0],
                          [1.0, 16.0, 2.0]][:ns])
            x = np.array([[1.0, 2.0, 4.0], [1.5, 2.5, 4.5],
                          [0.5, 3.0, 9.0]][:ns])
            rows = list(y)
            xrows = list(x)
        else:
            y = np.array([[3.0, 4.0, 5.0], [6.0, np.nan, 8.0]])
            rows = list(y)
        fig, err = call_plot(key, getattr(xyz, kind), x, y, **opts)
        if err:
            return fin(case, [err])
        ax = data_axes(fig)[0]
        if kind == "auto_lineplot":
            pts = [np.column_stack([l.get_xdata(), l.get_ydata()])
                   for l in ax.lines]
        else:
            pts = [np.asarray(c.get_offsets()).reshape(-1, 2)
                   for c in ax.collections]
        if len(pts) != len(rows):
            vio.append((key("series-count"), "%d series for %d rows"
                        % (len(pts), len(rows))))
        else:
            for ri, (r, p) in enumerate(zip(rows, pts)):
                ok = np.isfinite(r)
                xr_ = x if xrows is None else xrows[ri]
                if not np.array_equal(p, np.column_stack([xr_[ok], r[ok]])):
                    vio.append((key("points"), "drawn %r for row %r"
                                % (p.tolist(), r.tolist())))
        return fin(case, vio, len(rows) >= 2)
    if kind == "auto_histogram":
        a = np.array([0.5, 1.5, 1.6, 2.5, np.nan, 3.5, 3.6, 3.7])
        fig, err = call_plot(key, xyz.auto_histogram, a, bins=4)
        if err:
            return fin(case, [err])
        ax = data_axes(fig)[0]
        why = hist_compare(ax.patches, [a[np.isfinite(a)]])
        if why:
            vio.append((key("bins"), why))
        return fin(case, vio, True)
    a = np.array([[1.0, 2.0, 3.0], [4.0, np.nan, 6.0]])
    fig, err = call_plot(key, xyz.auto_heatmap, a)
    if err:
        return fin(case, [err])
    ax = data_axes(fig)[0]
    arr = np.ma.asarray(ax.collections[0].get_array())
    # auto_heatmap(x): dataset dims are ('y', 'z'), plotted with x='y', y='z'
    want = np.ma.masked_invalid(a.T)
    if arr.shape != want.shape:
        arr = arr.reshape(want.shape)
    if not (np.array_equal(np.ma.getmaskarray(arr), np.ma.getmaskarray(want))
            and np.array_equal(arr.filled(0), want.filled(0))):
        vio.append((key("mesh"), "mesh %r, data %r" % (arr.tolist(),
                                                       want.tolist())))
    return fin(case, vio, True)


def hist_compare(patches, series, edges_hint=None):
    """stepfilled polygons vs numpy"""
    import numpy as np

    polys = [p for p in patches if hasattr(p, "get_xy")]
    if len(polys) != len(series):
        return "%d histogram polygons for %d series" % (len(polys), len(series))
    # (matplotlib adds step polygons to the axes in reverse data order)
    polys = polys[::-1]
    allv = np.concatenate(series) if len(series) else np.array([])
    for p, vals in zip(polys, series):
        xy = np.asarray(p.get_xy())
        # stepfilled polygon: the top path (e0,0),(e0,h0),(e1,h0),(e1,h1) ...
        # (eN,h_{N-1}),(eN,0) followed by the way back along the bottom
        n = (len(xy) - 1) // 4
        if n < 1 or len(xy) != 4 * n + 1:
            return "cannot read polygon (%d vertices)" % len(xy)
        top = xy[: 2 * n + 2]
        edges = top[0::2, 0]
        heights = top[1: 2 * n + 1: 2, 1]
        if len(allv) and (not np.isclose(edges[0], allv.min())
                          or not np.isclose(edges[-1], allv.max())) and \
                edges_hint is None:
            return "bin range %r..%r, data range %r..%r" % (
                edges[0], edges[-1], allv.min(), allv.max())
        if edges_hint is not None and not np.allclose(edges, edges_hint):
            return "bin edges %r, requested %r" % (edges.tolist(), edges_hint)
        if len(vals):
            want, _ = np.histogram(vals, bins=edges, density=True)
            if not np.allclose(heights, want, atol=1e-9):
                return "densities %r, numpy gives %r" % (heights.tolist(),
                                                         want.tolist())
    return None


def check_hist(case):
    import numpy as np
    import xarray as xr
    import xyzpy as xyz

    nz, variant, opts = case["nz"], case["variant"], dict(case["opts"])
    stacked = opts.get("stacked", False)
    ns = 12
    rng = np.random.RandomState(3)
    nq = 2 if variant == "grid" else 1
    base = rng.uniform(0, 10, size=(ns, nz, nq)) + np.arange(nz)[None, :, None]
    h = base.copy()
    if case["holes"] == 1:
        h[0, 0] = np.nan
        h[3, -1] = np.inf
    elif case["holes"] == "series":
        h[:, 0] = np.nan
    # (a z value of zero: a perfectly good label)
    zs = ([0.0] + ZNUM[1:])[:nz]
    data = {"h": (("s", "z", "q"), h)}
    for v in range(nz):
        data["h%d" % v] = (("s", "q"), h[:, v])
    ds = xr.Dataset(data, coords={"z": zs, "q": QV[:nq]})
    if nq == 1:
        ds = ds.isel(q=0, drop=True)
    before = ds.copy(deep=True)
    bins = case["bins"]
    edges_hint = None
    if bins == "edges":
        bins = [0.0, 2.5, 5.0, 9.0, 13.0]
        edges_hint = bins
    vio = []

    def key(sym):
        return "C17|histogram|%s|%s" % (variant, sym)

    kw = dict(opts, bins=bins)
    if variant == "multi":
        args = (ds, tuple("h%d" % v for v in range(nz)))
    elif variant == "single":
        args = (ds, "h0")
    else:
        args = (ds, "h")
        kw["z"] = "z"
    if variant == "grid":
        kw["col"] = "q"
    if case["holes"] == "series" and variant in ("z", "multi", "grid") \
            and not stacked:
        pass
    fig, err = call_plot(key, xyz.histogram, *args, **kw)
    if err:
        return fin(case, [err])
    if not ds.identical(before):
        vio.append((key("dataset-modified"), "plotting changed the dataset"))
    axes = data_axes(fig)
    if len(axes) != nq:
        vio.append((key("panels"), "%d panels" % len(axes)))
        return fin(case, vio)
    if not stacked:
        for iq, ax in enumerate(axes):
            if variant == "single":
                cols = [h[:, 0, iq]]
            else:
                cols = [h[:, v, iq] for v in range(nz)]
            series = [c[np.isfinite(c)] for c in cols]
            if any(len(s) == 0 for s in series):
                # an empty series: only the others are compared
                polys = [p for p in ax.patches if hasattr(p, "get_xy")]
                if len(polys) != len(series):
                    vio.append((key("series-count"), "%d polygons for %d "
                                "series" % (len(polys), len(series))))
                continue
            why = hist_compare(ax.patches, series, edges_hint)
            if why:
                vio.append((key("bins"), "panel %d: %s" % (iq, why)))
    return fin(case, vio, nz >= 2 or nq >= 2)


def check_heat(case):
    import numpy as np
    import xarray as xr
    import xyzpy as xyz

    nx, ny, opts = case["nx"], case["ny"], dict(case["opts"])
    nonpos = opts.pop("nonpositive", False)
    grid = case["grid"]
    nr = 2 if grid == "both" else 1
    nq = 2 if grid in ("col", "both") else 1
    zz = np.empty((ny, nx, nr, nq))
    for idx in np.ndindex(*zz.shape):
        zz[idx] = 2.0 + idx[1] + 10.0 * idx[0] + 100.0 * idx[2] + 7.0 * idx[3]
    for (iy, ix) in case["mask"]:
        zz[iy, ix] = np.nan
    if nonpos:
        # values a logarithmic colour scale cannot show (limits are given)
        zz[0, 0] = 0.0
        zz[-1, -1] = -2.0
    ds = xr.Dataset({"zz": (("yy", "xx", "r", "q"), zz)},
                    coords={"xx": [1.0, 2.0, 3.0][:nx],
                            "yy": [10.0, 20.0, 30.0][:ny], "r": RV[:nr],
                            "q": QV[:nq]})
    if nr == 1:
        ds = ds.isel(r=0, drop=True)
    if nq == 1:
        ds = ds.isel(q=0, drop=True)
    order = case.get("order", 0)
    if order:
        dims = list(ds["zz"].dims)
        perm = ([d for d in dims if d != "yy"] + ["yy"]) if order == 1 \
            else dims[::-1]
        ds["zz"] = ds["zz"].transpose(*perm)
    before = ds.copy(deep=True)
    vio = []

    def key(sym):
        return "C17|heatmap|%s|%s" % (grid or "single", sym)

    kw = dict(opts)
    if nr == 2:
        kw["row"] = "r"
    if nq == 2:
        kw["col"] = "q"
    fig, err = call_plot(key, xyz.heatmap, ds, "xx", "yy", "zz", **kw)
    if err:
        return fin(case, [err])
    if not ds.identical(before):
        vio.append((key("dataset-modified"), "plotting changed the dataset"))
    axes = data_axes(fig)
    if len(axes) != nr * nq:
        vio.append((key("panels"), "%d panels for %dx%d" % (len(axes), nr, nq)))
        return fin(case, vio)
    for ir in range(nr):
        for iq in range(nq):
            ax = axes[ir * nq + iq]
            meshes = [c for c in ax.collections
                      if type(c).__name__ == "QuadMesh"]
            if grid:
                vio += grid_labels(key, ax, ir, iq, nr, nq)
            if len(meshes) != 1:
                vio.append((key("mesh-count"), "%d meshes" % len(meshes)))
                continue
            arr = np.ma.asarray(meshes[0].get_array())
            want = np.ma.masked_invalid(zz[:, :, ir, iq])
            if arr.shape != want.shape:
                arr = arr.reshape(want.shape)
            if not (np.array_equal(np.ma.getmaskarray(arr),
                                   np.ma.getmaskarray(want))
                    and np.array_equal(arr.filled(0), want.filled(0))):
                vio.append((key("mesh"), "panel (%d,%d): mesh %r, data %r"
                            % (ir, iq, arr.tolist(), want.tolist())))
            # the colour scale: one for all panels, spanning the finite data
            # of the whole dataset (or the limits given)
            import matplotlib as mpl
            fin_ = zz[np.isfinite(zz)]
            if opts.get("colormap_log"):
                fin_ = fin_[fin_ > 0]
            nm = meshes[0].norm
            if len(fin_) and float(fin_.min()) < float(fin_.max()):
                lo = opts.get("vmin", float(fin_.min()))
                hi = opts.get("vmax", float(fin_.max()))
                if not (np.isclose(nm.vmin, lo) and np.isclose(nm.vmax, hi)):
                    vio.append((key("norm"), "panel (%d,%d): colour scale "
                                "%r..%r, expected %r..%r for all panels"
                                % (ir, iq, nm.vmin, nm.vmax, lo, hi)))
                if isinstance(nm, mpl.colors.LogNorm) != bool(
                        opts.get("colormap_log")):
                    vio.append((key("norm-kind"), "panel (%d,%d): %s"
                                % (ir, iq, type(nm).__name__)))
                # (heat maps default to 'inferno', as documented)
                cm = oracle_cmap(opts.get("colormap", "inferno"),
                                 opts.get("colormap_reverse", False))
                probe = np.linspace(0, 1, 7)
                if not np.allclose(meshes[0].cmap(probe), cm(probe),
                                   atol=1e-6):
                    vio.append((key("cmap"), "panel (%d,%d): not the chosen "
                                "colour map" % (ir, iq)))
            co = meshes[0].get_coordinates()
            xe, ye = co[0, :, 0], co[:, 0, 1]
            xs = [1.0, 2.0, 3.0][:nx]
            ys = [10.0, 20.0, 30.0][:ny]
            if len(xe) != nx + 1 or len(ye) != ny + 1 or not all(
                    xe[i] < xs[i] < xe[i + 1] for i in range(nx)) or not all(
                    ye[i] < ys[i] < ye[i + 1] for i in range(ny)):
                vio.append((key("mesh-coords"), "cell edges %r / %r do not "
                            "enclose the coordinates" % (xe.tolist(),
                                                         ye.tolist())))
            elif not np.allclose([(xe[i] + xe[i + 1]) / 2 for i in range(nx)],
                                 xs) or not np.allclose(
                    [(ye[i] + ye[i + 1]) / 2 for i in range(ny)], ys):
                # (equally spaced coordinates: each cell is centred on its own)
                vio.append((key("mesh-centres"), "cells with edges %r / %r "
                            "are not centred on the coordinates %r / %r" % (
                                xe.tolist(), ye.tolist(), xs, ys)))
    return fin(case, vio, nr * nq >= 2 or True)


def fin(case, vio, nontrivial=False):
    return {"nontrivial": bool(nontrivial),
            "outcome": "%s:%s" % (case["kind"], "ok" if not vio else "bad"),
            "violations": vio}
