"""crash - enumerate every disk state a killed process can leave (DESIGN 2.5).

Given the pre-state snapshot and the mutation log of a workload recorded by
``fsseam``, the crash states are: the pre-state plus the first k operations
for every k, and for every write additionally the states in which only the
first j bytes of that write reached the file (torn last write).  Completed
system calls persist in order (the page cache survives a process kill), so no
re-ordering is modelled.
"""
from . import fsseam


def cut_points(n, level):
    """byte counts j (0 < j < n) of a torn write of n bytes"""
    if n <= 1:
        return []
    if level == "quick":
        pts = {1, n // 2, n - 1}
    elif n <= 512:
        pts = set(range(1, n))
    else:
        pts = set(range(1, 17)) | set(range(n - 16, n))
        pts |= {(n * i) // 64 for i in range(1, 64)}
    return sorted(p for p in pts if 0 < p < n)


def crash_states(pre, log, level="quick", opaque_empty=True):
    """yield (label, snapshot) - de-duplicated by tree hash.

    label = 'k<i>' (state after the first i mutation ops) or 'k<i>+<j>b'
    (op i+1 is a write of which only j bytes landed)."""
    seen = set()

    def emit(label, snap):
        h = fsseam.snap_hash(snap)
        if h in seen:
            return None
        seen.add(h)
        return (label, dict(snap))

    snap = dict(pre)
    r = emit("k0", snap)
    if r:
        yield r
    for k, op in enumerate(log):
        if op["op"] in ("write", "opaque_write"):
            n = len(op["data"])
            cuts = cut_points(n, level)
            if op["op"] == "opaque_write":
                # an external writer: created/truncated empty, partly
                # written, all but one byte
                cuts = sorted(set([0] + cut_points(n, "quick")))
            for j in cuts:
                s = dict(snap)
                fsseam.apply_op(s, op, cut=j)
                r = emit("k%d+%db:%s" % (k, j, op["path"]), s)
                if r:
                    yield r
        fsseam.apply_op(snap, op)
        r = emit("k%d:%s:%s" % (k + 1, op["op"], op["path"]), snap)
        if r:
            yield r


def describe(log, label):
    """human description of where a crash label sits in the log"""
    return label
