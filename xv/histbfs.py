"""histbfs - explicit-state breadth-first search over API-call histories
(DESIGN 2.4).

A state is represented by the (shortest) event history that reaches it; the
property module's ``expand`` worker re-builds the state by replaying the
history on fresh real objects in a clean scratch root, then applies every
enabled event (each on its own re-built copy), checks the invariants / the
reference model on the result and returns a canonical key of the successor.
States are de-duplicated on that key.
"""
import time


def bfs(ctx, expand_name, cfg, max_depth, max_states=None, label=None):
    """returns dict(states, transitions, depth, fixpoint, capped)"""
    label = label or str(cfg)
    t_start = time.time()
    seen = {"<init>"}
    frontier = [[]]
    depth = 0
    transitions = 0
    capped = False
    sample_hist = None
    while frontier and depth < max_depth:
        nxt = []
        tasks = [(cfg, h) for h in frontier]
        for r in ctx.map_unordered(expand_name, tasks):
            if r.get("init_key"):
                seen.discard("<init>")
                seen.add(r["init_key"])
            for ev, key, vio, oc in r["succ"]:
                transitions += 1
                ctx.evaluations += 1
                if oc is not None:
                    ctx.outcomes[oc] = ctx.outcomes.get(oc, 0) + 1
                for k, w in vio:
                    ctx.violation(k, w, {"cfg": cfg, "history": r["hist"] + [ev]})
                if key is None:
                    continue  # the event is not a state change (e.g. refused)
                if key not in seen:
                    if max_states is not None and len(seen) >= max_states:
                        capped = True
                        continue
                    seen.add(key)
                    nxt.append(r["hist"] + [ev])
                    ctx.nontrivial.add("%s|%s" % (label, key))
                    sample_hist = r["hist"] + [ev]
        frontier = nxt
        depth += 1
    if sample_hist is not None:
        ctx.sample({"cfg": cfg, "history": sample_hist}, limit=6)
    return {"states": len(seen), "transitions": transitions, "depth": depth,
            "fixpoint": not frontier, "capped": capped,
            "wall_s": round(time.time() - t_start, 1)}
