import os
import sys
import argparse


def main():
    # always test the working tree of /repo
    # (XV_REPO lets the tooling under tools/ point the same checks at a
    # scratch worktree carrying a seeded change; the registered commands do
    # not set it and so test /repo itself)
    repo = os.environ.get("XV_REPO", "/repo")
    os.environ["PYTHONPATH"] = repo + (
        ":" + os.environ["PYTHONPATH"] if os.environ.get("PYTHONPATH") else ""
    )
    if repo not in sys.path:
        sys.path.insert(0, repo)
    os.environ.setdefault("PYTHONDONTWRITEBYTECODE", "1")
    sys.dont_write_bytecode = True
    os.environ.setdefault("PYTHONHASHSEED", "0")
    os.environ.setdefault("MPLBACKEND", "Agg")
    os.environ.setdefault("OMP_NUM_THREADS", "1")
    os.environ.setdefault("OPENBLAS_NUM_THREADS", "1")
    os.environ.setdefault("TQDM_DISABLE", "1")

    ap = argparse.ArgumentParser(prog="xv")
    sub = ap.add_subparsers(dest="cmd", required=True)
    c = sub.add_parser("check")
    c.add_argument("pid")
    c.add_argument("--tier", default="quick", choices=["quick", "thorough"])
    r = sub.add_parser("replay")
    r.add_argument("path")
    args = ap.parse_args()

    from xv import core

    if args.cmd == "check":
        tier = os.environ.get("VERIF_TIER") or args.tier
        if tier not in ("quick", "thorough"):
            tier = args.tier
        seed = int(os.environ.get("VERIF_SEED", "0") or 0)
        sys.exit(core.run_check(args.pid.upper(), tier, seed))
    else:
        sys.exit(core.run_replay(args.path))


if __name__ == "__main__":
    main()
