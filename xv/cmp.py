"""Decoders / comparators shared by the checks (reference side is plain
Python: dicts from coordinate tuples to values, lists of rows)."""
import math


def isnan(x):
    try:
        return x is None or (isinstance(x, float) and math.isnan(x)) or (
            hasattr(x, "dtype") and x.dtype.kind == "f" and x.ndim == 0
            and math.isnan(float(x)))
    except Exception:
        return False


def leaf_equal(a, b):
    """exact equality of two result leaves (numbers, strings, arrays, tuples,
    lists, dicts, xarray objects)."""
    import numpy as np

    try:
        import xarray as xr
    except Exception:  # pragma: no cover
        xr = None
    if xr is not None and isinstance(a, (xr.Dataset, xr.DataArray)):
        return isinstance(b, type(a)) and a.identical(b)
    if isinstance(a, dict):
        return (isinstance(b, dict) and set(a) == set(b)
                and all(leaf_equal(a[k], b[k]) for k in a))
    if isinstance(a, (tuple, list)):
        return (isinstance(b, (tuple, list)) and len(a) == len(b)
                and all(leaf_equal(x, y) for x, y in zip(a, b)))
    if isinstance(a, np.ndarray) != isinstance(b, np.ndarray) and isinstance(
            b if isinstance(a, np.ndarray) else a, (tuple, list)):
        # (a tuple / list that came back as an array - or the reverse - is
        # another value: arrays have one type for all entries)
        return False
    if isinstance(a, np.ndarray) or isinstance(b, np.ndarray):
        a, b = np.asarray(a), np.asarray(b)
        return a.shape == b.shape and bool(np.array_equal(a, b))
    if isinstance(a, (bool, np.bool_)) or isinstance(b, (bool, np.bool_)):
        return isinstance(a, (bool, np.bool_)) and isinstance(
            b, (bool, np.bool_)) and bool(a) == bool(b)
    try:
        return bool(a == b)
    except Exception:
        return False


def leaf_missing(x):
    """is ``x`` an all-missing placeholder (NaN, None, arrays / tuples of NaN,
    all-NaN xarray object)?"""
    import numpy as np

    try:
        import xarray as xr
    except Exception:  # pragma: no cover
        xr = None
    if x is None:
        return True
    if xr is not None and isinstance(x, xr.Dataset):
        return all(bool(x[v].isnull().all()) for v in x.data_vars)
    if xr is not None and isinstance(x, xr.DataArray):
        return bool(x.isnull().all())
    if isinstance(x, (tuple, list)):
        return len(x) > 0 and all(leaf_missing(y) for y in x)
    if isinstance(x, np.ndarray):
        if x.dtype.kind == "f":
            return bool(np.isnan(x).all())
        if x.dtype == object:
            return all(leaf_missing(y) for y in x.ravel())
        return False
    if isinstance(x, float):
        return math.isnan(x)
    if isinstance(x, np.floating):
        return bool(np.isnan(x))
    return False


def nested_get(nested, idx):
    for i in idx:
        nested = nested[i]
    return nested


def ds_to_dict(ds, skip_nan=True):
    """{(var, ((dim, coord), ...)): python value} for every non-null cell"""
    import numpy as np

    out = {}
    for v in ds.data_vars:
        da = ds[v]
        dims = da.dims
        coords = [da[d].values.tolist() for d in dims]
        arr = da.values
        for idx in np.ndindex(*arr.shape):
            val = arr[idx]
            val = val.item() if hasattr(val, "item") else val
            if skip_nan and (val is None or (
                    isinstance(val, float) and math.isnan(val)) or (
                    isinstance(val, complex) and math.isnan(val.real))):
                continue
            key = (v, tuple(sorted(
                (d, coords[k][i]) for k, (d, i) in enumerate(zip(dims, idx)))))
            out[key] = val
    return out


def ds_extent(ds):
    return {d: tuple(ds[d].values.tolist()) for d in ds.dims}


def df_rows(df, cols=None):
    """list of {col: python value} (NaN -> None)"""
    rows = []
    cols = list(df.columns) if cols is None else cols
    for _, r in df.iterrows():
        row = {}
        for c in cols:
            v = r[c] if c in df.columns else None
            v = v.item() if hasattr(v, "item") else v
            if isinstance(v, float) and math.isnan(v):
                v = None
            row[c] = v
        rows.append(row)
    return rows


def row_key(row):
    return tuple(sorted((k, repr(_numnorm(v))) for k, v in row.items()))


def _numnorm(v):
    if isinstance(v, bool):
        return v
    if isinstance(v, (int, float)) and float(v) == int(float(v)):
        return int(float(v))
    return v
