#!/usr/bin/env python3
"""Run the quick checks against behaviour-preserving refactorings and store
the ones that were confirmed under /verif/equivalent/<id>/.

    tools/eqcheck.py <dir with patch.diff[, notes.md]> <id> <Cxx> [<Cxx> ...]

The patch is applied to a scratch worktree of /repo (outside /repo and
/verif), the pinned test-suite must still pass with it, then the named checks
(quick tier) are run against the changed tree: every one must exit 0."""
import os, sys, json, shutil, subprocess

VERIF = os.path.dirname(os.path.dirname(os.path.abspath(__file__)))
WT = os.environ.get("XV_SEED_WT", "/tmp/wt/seedtest")


def sh(cmd, **kw):
    return subprocess.run(cmd, capture_output=True, text=True, **kw)


def main():
    src, eid, checks = sys.argv[1], sys.argv[2], sys.argv[3:]
    if not os.path.exists(os.path.join(WT, ".git")):
        sh(["git", "-C", "/repo", "worktree", "add", "--detach", WT, "HEAD"])
    sh(["git", "-C", WT, "checkout", "-q", "--detach", "main"])
    sh(["git", "-C", WT, "reset", "-q", "--hard"])
    head = sh(["git", "-C", WT, "log", "--format=%h", "-1"]).stdout.strip()
    meta = {"id": eid, "base_commit": head, "checks": {}}
    r = sh(["git", "-C", WT, "apply", os.path.join(src, "patch.diff")])
    if r.returncode:
        r = sh(["git", "-C", WT, "apply", "-3", os.path.join(src, "patch.diff")])
    meta["applies"] = r.returncode == 0
    if r.returncode:
        print("%s: PATCH DOES NOT APPLY" % eid)
        return 2
    r = sh(["python3", os.path.join(VERIF, "tools", "baseline_check.py"), WT])
    meta["tests_pass_with_change"] = r.returncode == 0
    alarms = []
    for c in checks:
        r = sh(["/venv/bin/python", "-m", "xv", "check", c, "--tier", "quick"],
               cwd=VERIF, env=dict(os.environ, XV_REPO=WT), timeout=3600)
        first = [l[:300] for l in r.stdout.split("\n") if l.startswith("# ")][:3]
        meta["checks"][c] = {"exit": r.returncode, "first": first}
        if r.returncode != 0:
            alarms.append(c)
            if r.returncode == 2:
                meta["checks"][c]["stderr"] = r.stderr[-1500:]
    meta["alarms"] = alarms
    sh(["git", "-C", WT, "reset", "-q", "--hard"])
    dst = os.path.join(VERIF, "equivalent", eid)
    os.makedirs(dst, exist_ok=True)
    shutil.copy(os.path.join(src, "patch.diff"), dst)
    if os.path.exists(os.path.join(src, "notes.md")):
        shutil.copy(os.path.join(src, "notes.md"), dst)
    json.dump(meta, open(os.path.join(dst, "meta.json"), "w"), indent=1)
    print("%s: tests=%s alarms=%r" % (eid, meta["tests_pass_with_change"], alarms))
    for c in alarms:
        for l in meta["checks"][c]["first"]:
            print("     " + l)
        if meta["checks"][c].get("stderr"):
            print("     stderr: " + meta["checks"][c]["stderr"][-400:])


if __name__ == "__main__":
    sys.exit(main())
