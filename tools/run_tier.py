#!/usr/bin/env python3
"""Run every check of a tier one after the other and record what each one
covered in /verif/measured/<tier>.json (used by tools/asbuilt_table.py).

    tools/run_tier.py quick|thorough [Cxx ...]
"""
import os, sys, json, subprocess, time, re

VERIF = os.path.dirname(os.path.dirname(os.path.abspath(__file__)))


def main():
    tier = sys.argv[1]
    ids = sys.argv[2:] or ["C%02d" % i for i in range(1, 21)]
    os.makedirs(os.path.join(VERIF, "measured"), exist_ok=True)
    path = os.path.join(VERIF, "measured", tier + ".json")
    data = json.load(open(path)) if os.path.exists(path) else {}
    mine = {}
    for cid in ids:
        t0 = time.time()
        r = subprocess.run(
            ["timeout", "14400", "/venv/bin/python", "-m", "xv", "check", cid,
             "--tier", tier], cwd=VERIF, capture_output=True, text=True)
        wall = time.time() - t0
        line = [l for l in r.stdout.split("\n") if l.startswith(cid + " " + tier)]
        ev = json.load(open(os.path.join(VERIF, "evidence", cid + ".json")))
        cov = ev.get("coverage", {})
        data[cid] = {
            "exit": r.returncode, "wall_s": round(wall, 1),
            "summary": line[-1] if line else None,
            "evaluations": cov.get("evaluations"),
            "distinct_nontrivial": cov.get("distinct_nontrivial"),
            "exhaustive": cov.get("exhaustive"),
            "states": cov.get("states"), "transitions": cov.get("transitions"),
            "counts": cov.get("counts"),
            "extra": {k: cov[k] for k in cov if k in (
                "workloads", "mutation_ops_recorded", "second_crash_states",
                "sigkill_conformance", "schedules", "configs", "conformance")},
        }
        # (several lanes may run at once: merge this lane's entries into
        # whatever the file holds now)
        mine[cid] = data[cid]
        cur = json.load(open(path)) if os.path.exists(path) else {}
        cur.update(mine)
        json.dump(cur, open(path, "w"), indent=1, sort_keys=True)
        print("%s %s exit=%d %.0fs %s" % (cid, tier, r.returncode, wall,
                                          line[-1] if line else ""), flush=True)


if __name__ == "__main__":
    main()
