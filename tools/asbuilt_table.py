#!/usr/bin/env python3
"""Rewrite the table of DESIGN.md section 3.0 from /verif/measured/*.json
(written by tools/run_tier.py).  The last column is kept in NOTES below."""
import os, re, json

VERIF = os.path.dirname(os.path.dirname(os.path.abspath(__file__)))

NOTES = {
    "C01": "+ sweeps repeated right after a sweep over `==`-equal values of other types; a falsy seed; the caller's same objects swept twice; grids of 81-1024 settings",
    "C02": "dict cases with per-case key order rotated; the same request through a long-lived Runner that ran with another argument order before; integer-array results",
    "C03": "13 descriptions incl. falsy constants / attributes and a constant naming a Dataset result's dimension; the caller's same case dicts swept twice",
    "C04": "real loky pool with a slow first setting; fresh-process runs; crops of 101-128 batches; BFS key includes whether the live Crop took part",
    "C05": "+ a second long-lived Harvester; + a lazily loading (chunks) Harvester; state cap instead of fix-point",
    "C06": "+ constants given at sow time; + another session harvesting into the file between sow and reap",
    "C07": "+ farmer constants changed and the same Crop sown again; crops of 101-257 batches",
    "C08": "fix-point reached for <= 8 batches; 12 / 101 batches with a sparser alphabet to bounded depth",
    "C09": "forms / kinds rotate over (request, subset) in quick; + 11-101 batches; integer arrays",
    "C10": "recovery = re-run the sow script (default autoload); short-last-batch scenario; real-SIGKILL conformance",
    "C11": "see 2.8; an open handle follows its inode across renames",
    "C12": "faults at open/read/write/close/rename only; failure and retry also through one long-lived session; short-result failure",
    "C13": "lattices chunked; bounded deviation beyond the cap; parse_into_cases sequences (same arguments twice, fewer parameters next)",
    "C14": "as designed",
    "C15": "+ a second long-lived Sampler; long-lived Crop objects sown repeatedly; state key includes the live objects",
    "C16": "real-interpreter subset; + B = 12",
    "C17": "see alphabet limits in the section; every stored dimension order",
    "C18": "every stored dimension order; reordered sub-selections as explicit orders",
    "C19": "depth 6 / 8; successor states are copies of the real objects; every intermediate matrix state read",
    "C20": "+ exponents where the printed width changes and the ends of the float range",
}


def fmt(n):
    if n is None:
        return "?"
    if n >= 1e6:
        return "%.1f M" % (n / 1e6)
    if n >= 1e4:
        return "%.0f k" % (n / 1e3)
    if n >= 1e3:
        return "%.1f k" % (n / 1e3)
    return str(n)


def cell(m):
    if not m:
        return "not measured"
    s = "%s evaluations" % fmt(m.get("evaluations"))
    if m.get("states"):
        s += " (%s states / %s transitions)" % (fmt(m["states"]),
                                                fmt(m.get("transitions")))
    s += ", %.0f s" % m["wall_s"]
    if m.get("exhaustive") is False:
        s += ", bounded"
    if m.get("exit") not in (0, None):
        s += ", EXIT %r" % m["exit"]
    return s


def main():
    q = json.load(open(os.path.join(VERIF, "measured", "quick.json")))
    tp = os.path.join(VERIF, "measured", "thorough.json")
    t = json.load(open(tp)) if os.path.exists(tp) else {}
    man = json.load(open(os.path.join(VERIF, "MANIFEST.json")))
    levels = {c["property_id"]: c.get("level_claimed") for c in man["checks"]}
    rows = ["| id | level | quick (measured) | thorough (measured) | notable deviations from the design below |",
            "|---|---|---|---|---|"]
    for i in range(1, 21):
        cid = "C%02d" % i
        rows.append("| %s | %s | %s | %s | %s |" % (
            cid, levels.get(cid, ""), cell(q.get(cid)), cell(t.get(cid)),
            NOTES[cid]))
    p = os.path.join(VERIF, "DESIGN.md")
    s = open(p).read()
    a = s.index("| id | level |")
    b = s.index("\n\n", a)
    s = s[:a] + "\n".join(rows) + s[b:]
    open(p, "w").write(s)
    print("table rewritten (%d quick, %d thorough measurements)" % (len(q), len(t)))


if __name__ == "__main__":
    main()
