#!/usr/bin/env python3
"""Rewrite the table of DESIGN.md section 3.0 from /verif/measured/*.json
(written by tools/run_tier.py).  The last column is kept in NOTES below."""
import os, re, json

VERIF = os.path.dirname(os.path.dirname(os.path.abspath(__file__)))

NOTES = {
    "C01": "+ falsy seed, empty arguments, mixed-type / generator / array values, **kwargs constants, split array / list results, the caller's objects swept twice, grids of 81-1024 settings; controlled executors tolerate unknown submissions",
    "C02": "+ long-lived Runner with another argument order before, integer arrays, mixed numeric / tuple case values, one-shot iterators",
    "C03": "+ falsy constants, reversed signature, the caller's case dicts swept twice, mixed / complex case values, internal labels that differ per result, attrs on Dataset / dict results",
    "C04": "+ crops of 101-128 batches, an earlier un-reaped sweep through the same Crop, cases x two non-alphabetical sub-grid arguments; BFS key includes the live Crop",
    "C05": "+ second live Harvester, lazy (chunks) Harvester, ellipsis dict re-used, empty dataset, fractional coordinate, dict cases with varying key order, positional drop_sel; state cap instead of fix-point",
    "C06": "+ sow-time constants (falsy too), other session harvesting in between, earlier rounds through the same Crop / crop name (reaped, un-reaped, other function version), constructor shuffle, 12-batch crops with wait",
    "C07": "+ sow_cases with sub-grid, falsy constants, request at the sow call, farmer constants changed / one-off constant, delete_all + sow again, reloaded Crop sowing, one batch less, 101-257 batches; reference through a twin farmer",
    "C08": "fix-point for <= 8 batches; 12 / 101 batches bounded; + damaged results + check_bad, other function sown by another session, StopIteration failures, iterator ids, count above N",
    "C09": "+ 11-101 batches, integer / non-square / 3-d / dict results, constructor shuffle, same Crop sown again with another last batch",
    "C10": "recovery = re-run the sow script, decided by what the crop reports, nothing retried; short-last-batch and shuffled scenarios; real-SIGKILL conformance",
    "C11": "see 2.8; open handles follow their inode; + the awaited result appearing after P looks, every P up to 40 / 150",
    "C12": "+ long-lived session for failure + retry, short / long results (falsy surplus, last value False), sampler without table, in-memory harvester, three outputs with one name too few; crop sown from the farmer holding the earlier data",
    "C13": "lattices chunked, bounded deviation beyond the cap; + unlabelled internal dimension, ignore as plain string, dims order != axis order, parse_into_cases sequences, loop with reversed signature",
    "C14": "+ second save under the same name, engine per call, narrow coordinate widened by a merge; secondary dimensions rotate by hash",
    "C15": "+ second live Sampler, long-lived Crops sown repeatedly (also before reaping), per-sow constants, list-choice Sampler with overrides, string-valued argument; state key includes the live objects",
    "C16": "real-interpreter subset; + B = 12, crop name starting with prefix characters, crop addressed by a relative path",
    "C17": "+ every stored dimension order, missing error values, z = 0, non-monotonic z, x given by a 2-d variable, z-less 2-d pairs; option sets by hash; colour-map oracle independent of the library",
    "C18": "+ stored dimension orders, reordered sub-selections, two aggregated dimensions, fused dimensions in both orders with labels, an all-zero slice; thinning by hash",
    "C19": "depth 6 / 8 on copies of the real objects; + samples of 33-500 values in chunks, covariance matrix in chunks (square chunks), estimates at other scales",
    "C20": "+ exponents +-99..101, +-200, +-300, errors a hair off the rounding points",
}


def fmt(n):
    if n is None:
        return "?"
    if n >= 1e6:
        return "%.1f M" % (n / 1e6)
    if n >= 1e4:
        return "%.0f k" % (n / 1e3)
    if n >= 1e3:
        return "%.1f k" % (n / 1e3)
    return str(n)


def cell(m):
    if not m:
        return "not measured"
    s = "%s evaluations" % fmt(m.get("evaluations"))
    if m.get("states"):
        s += " (%s states / %s transitions)" % (fmt(m["states"]),
                                                fmt(m.get("transitions")))
    s += ", %.0f s" % m["wall_s"]
    if m.get("exhaustive") is False:
        s += ", bounded"
    if m.get("exit") not in (0, None):
        s += ", EXIT %r" % m["exit"]
    return s


def main():
    q = json.load(open(os.path.join(VERIF, "measured", "quick.json")))
    tp = os.path.join(VERIF, "measured", "thorough.json")
    t = json.load(open(tp)) if os.path.exists(tp) else {}
    man = json.load(open(os.path.join(VERIF, "MANIFEST.json")))
    levels = {c["property_id"]: c.get("level_claimed") for c in man["checks"]}
    rows = ["| id | level | quick (measured) | thorough (measured) | notable deviations from the design below |",
            "|---|---|---|---|---|"]
    for i in range(1, 21):
        cid = "C%02d" % i
        rows.append("| %s | %s | %s | %s | %s |" % (
            cid, levels.get(cid, ""), cell(q.get(cid)), cell(t.get(cid)),
            NOTES[cid]))
    p = os.path.join(VERIF, "DESIGN.md")
    s = open(p).read()
    a = s.index("| id | level |")
    b = s.index("\n\n", a)
    s = s[:a] + "\n".join(rows) + s[b:]
    open(p, "w").write(s)
    print("table rewritten (%d quick, %d thorough measurements)" % (len(q), len(t)))


if __name__ == "__main__":
    main()
