#!/usr/bin/env python3
"""tools/reclass_seed.py <old id> <new id> <property> <note>: a seeded change
written against one property's text whose effect belongs to another."""
import os, sys, json
VERIF = os.path.dirname(os.path.dirname(os.path.abspath(__file__)))
old, new, prop, note = sys.argv[1:5]
os.rename(os.path.join(VERIF, "seeded", old), os.path.join(VERIF, "seeded", new))
p = os.path.join(VERIF, "seeded", new, "meta.json")
m = json.load(open(p))
m["written_for"] = m["property"]
m["id"], m["property"], m["note"] = new, prop, note
json.dump(m, open(p, "w"), indent=1)
print("ok")
