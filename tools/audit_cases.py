#!/usr/bin/env python3
"""Audit of the case generators: every pair of values of two small-domain case
fields that the thorough tier combines should also be combined somewhere in the
quick tier (thinning by a counter can put dimensions in lock-step).
    PYTHONPATH=/repo /venv/bin/python tools/audit_cases.py [Cxx ...]"""
import sys, json, importlib, collections, itertools
sys.path.insert(0, "/verif")
skip = {"n", "N", "req", "shape", "cases", "mask", "order", "finished", "have", "sel", "lo", "hi", "seed", "spec", "prefix", "first", "max_list", "assign", "ctypes", "opts"}
only = sys.argv[1:]
for i in range(1, 21):
    if only and ("C%02d" % i) not in only:
        continue
    mod = importlib.import_module("xv.props.c%02d" % i)
    if not hasattr(mod, "cases"):
        continue
    pairs = {}
    dom = {}
    for tier in ("quick", "thorough"):
        seen = set()
        d = collections.defaultdict(set)
        n = 0
        for c in mod.cases(tier, 0):
            n += 1
            if n > 200000:
                break
            items = [(k, json.dumps(v, sort_keys=True, default=str)) for k, v in c.items() if k not in skip]
            for kv in items:
                d[kv[0]].add(kv[1])
            for a, b in itertools.combinations(items, 2):
                seen.add((a, b))
        pairs[tier] = seen
        dom[tier] = d
    small = {k for k, v in dom["thorough"].items() if len(v) <= 8}
    miss = collections.Counter()
    ex = {}
    for (a, b) in pairs["thorough"] - pairs["quick"]:
        if a[0] in small and b[0] in small and a[1] in dom["quick"].get(a[0], ()) and b[1] in dom["quick"].get(b[0], ()):
            miss[(a[0], b[0])] += 1
            ex[(a[0], b[0])] = (a[1], b[1])
    for k, v in miss.most_common():
        print("C%02d pair %s x %s: quick never combines %d value pairs, e.g. %s" % (i, k[0], k[1], v, ex[k]))
