#!/usr/bin/env python3
"""Re-run, for every seeded change under /verif/seeded, the quick check of its
own property against a scratch worktree carrying the change (stopping at the
first confirmed violation: XV_FAILFAST), and update
meta.json (`recheck`).  Usage: tools/recheck_seeds.py [id-prefix ...]"""
import os, sys, json, glob, subprocess, time
VERIF = os.path.dirname(os.path.dirname(os.path.abspath(__file__)))
WT = os.environ.get("XV_SEED_WT", "/tmp/wt/seedtest2")


def sh(cmd, **kw):
    return subprocess.run(cmd, capture_output=True, text=True, **kw)


def main():
    want = sys.argv[1:]
    if not os.path.exists(os.path.join(WT, ".git")):
        sh(["git", "-C", "/repo", "worktree", "add", "--detach", WT, "HEAD"])
    head = sh(["git", "-C", "/repo", "log", "--format=%h", "-1"]).stdout.strip()
    missed = []
    n = 0
    for mf in sorted(glob.glob(os.path.join(VERIF, "seeded", "*", "meta.json"))):
        m = json.load(open(mf))
        if want and not any(m["id"].startswith(w) for w in want):
            continue
        sh(["git", "-C", WT, "checkout", "-q", "--detach", "main"])
        sh(["git", "-C", WT, "reset", "-q", "--hard"])
        for extra in ([], ["-3"], ["--recount", "-C1"]):
            r = sh(["git", "-C", WT, "apply"] + extra +
                   [os.path.join(os.path.dirname(mf), "patch.diff")])
            if r.returncode == 0:
                break
            sh(["git", "-C", WT, "reset", "-q", "--hard"])
        if r.returncode:
            print("%s: patch no longer applies" % m["id"]); missed.append(m["id"]); continue
        t0 = time.time()
        # (a change whose effect belongs to another property is re-run
        # against that property's check: the one that caught it when seeded)
        cb = m.get("caught_by") or []
        chk = m["property"] if (not cb or m["property"] in cb) else cb[0]
        r = sh(["/venv/bin/python", "-m", "xv", "check", chk, "--tier", "quick"],
               cwd=VERIF, env=dict(os.environ, XV_REPO=WT, XV_FAILFAST="1"),
               timeout=3600)
        first = [l[:200] for l in r.stdout.split("\n") if l.startswith("# ")][:1]
        m["recheck"] = {"head": head, "check": chk, "exit": r.returncode,
                        "first": first, "wall_s": round(time.time() - t0, 1)}
        json.dump(m, open(mf, "w"), indent=1)
        n += 1
        ok = r.returncode == 1 or (m.get("expected_uncaught") and r.returncode == 0)
        print("%s: %s exit=%d %.0fs %s" % (m["id"], chk, r.returncode,
                                           time.time() - t0, "" if ok else "** NOT CAUGHT **"))
        if not ok:
            missed.append(m["id"])
    sh(["git", "-C", WT, "reset", "-q", "--hard"])
    print("rechecked %d, not caught: %r" % (n, missed))


if __name__ == "__main__":
    main()
