#!/usr/bin/env python3
"""Apply a seeded change to /repo, run checks against it, and undo it.

    tools/mutant.py try <dir-with-patch.diff> C07 C10 ... [--tier quick]
    tools/mutant.py demo <dir>      run demo.py on the clean and changed tree
    tools/mutant.py tests <dir>     run the pinned test-suite with the change

/repo is always restored (git checkout -- .) afterwards.
"""
import os
import sys
import subprocess

REPO = "/repo"
VERIF = os.path.dirname(os.path.dirname(os.path.abspath(__file__)))


def sh(cmd, **kw):
    return subprocess.run(cmd, shell=isinstance(cmd, str), **kw)


def clean():
    r = sh(["git", "-C", REPO, "status", "--porcelain"], capture_output=True,
           text=True)
    return r.stdout.strip() == ""


def apply(d):
    patch = os.path.join(d, "patch.diff")
    for extra in ([], ["-3"], ["--recount", "-C1"]):
        r = sh(["git", "-C", REPO, "apply"] + extra + [patch],
               capture_output=True, text=True)
        if r.returncode == 0:
            return True
    print("PATCH DOES NOT APPLY:", r.stderr[:400])
    return False


def revert():
    sh(["git", "-C", REPO, "checkout", "--", "."])
    sh(["git", "-C", REPO, "reset", "-q"])
    sh(["git", "-C", REPO, "checkout", "--", "."])


def main():
    cmd, d = sys.argv[1], os.path.abspath(sys.argv[2])
    rest = sys.argv[3:]
    tier = "quick"
    if "--tier" in rest:
        i = rest.index("--tier")
        tier = rest[i + 1]
        rest = rest[:i] + rest[i + 2:]
    if not clean():
        print("/repo is not clean - refusing")
        sys.exit(2)
    env = dict(os.environ, PYTHONPATH=REPO, PYTHONDONTWRITEBYTECODE="1")
    try:
        if cmd == "demo":
            r0 = sh(["/venv/bin/python", os.path.join(d, "demo.py")], env=env,
                    capture_output=True, text=True, cwd="/dev/shm")
            print("clean tree: exit", r0.returncode, r0.stdout.strip()[-80:])
            if not apply(d):
                sys.exit(2)
            r1 = sh(["/venv/bin/python", os.path.join(d, "demo.py")], env=env,
                    capture_output=True, text=True, cwd="/dev/shm")
            print("changed tree: exit", r1.returncode,
                  (r1.stdout + r1.stderr).strip()[-300:])
            ok = r0.returncode == 0 and r1.returncode != 0
            print("DEMO", "OK" if ok else "NOT AS REQUIRED")
            sys.exit(0 if ok else 1)
        if not apply(d):
            sys.exit(2)
        if cmd == "tests":
            r = sh(["python3", os.path.join(VERIF, "tools", "baseline_check.py")])
            sys.exit(r.returncode)
        if cmd == "try":
            caught = []
            for pid in rest:
                r = sh(["/venv/bin/python", "-m", "xv", "check", pid, "--tier",
                        tier], cwd=VERIF, capture_output=True, text=True,
                       timeout=3600)
                vio = [l for l in r.stdout.split("\n")
                       if l.startswith("VIOLATION")]
                notes = [l for l in r.stdout.split("\n") if l.startswith("# ")]
                print("%s: exit %d, %d violation lines" % (
                    pid, r.returncode, len(vio)))
                for l in notes[:4]:
                    print("   ", l[:220])
                if r.returncode == 2:
                    print("   HARNESS ERROR:", r.stderr[-400:])
                if r.returncode == 1:
                    caught.append(pid)
            print("CAUGHT BY:", caught or "nobody")
    finally:
        revert()


if __name__ == "__main__":
    main()
