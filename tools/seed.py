#!/usr/bin/env python3
"""Verify a candidate property-breaking change and store it under
/verif/seeded/<id>/.

    tools/seed.py <dir with patch.diff, demo.py[, notes.md]> <seed id> <property> [check ids...]

Everything runs in a scratch worktree of /repo (outside /repo and /verif);
/repo itself is not touched.  Steps: the patch applies to the current HEAD,
the pinned test-suite still passes with it, demo.py passes on the clean tree
and fails on the changed tree, and the named checks (quick tier, default: the
property's own) are run against the changed tree.
"""
import os, sys, json, shutil, subprocess

VERIF = os.path.dirname(os.path.dirname(os.path.abspath(__file__)))
WT = os.environ.get("XV_SEED_WT", "/tmp/wt/seedtest")


def sh(cmd, **kw):
    return subprocess.run(cmd, capture_output=True, text=True, **kw)


def main():
    src, sid, pid = sys.argv[1], sys.argv[2], sys.argv[3]
    checks = [pid] + [c for c in sys.argv[4:] if c != pid]
    if not os.path.exists(os.path.join(WT, ".git")):
        sh(["git", "-C", "/repo", "worktree", "add", "--detach", WT, "HEAD"])
    sh(["git", "-C", WT, "checkout", "-q", "--detach", "main"])
    sh(["git", "-C", WT, "reset", "-q", "--hard"])
    head = sh(["git", "-C", WT, "log", "--format=%h", "-1"]).stdout.strip()
    meta = {"id": sid, "property": pid, "base_commit": head, "ran": []}
    patch = os.path.join(src, "patch.diff")
    ok = False
    for extra in ([], ["-3"], ["--recount", "-C1"]):
        r = sh(["git", "-C", WT, "apply"] + extra + [patch])
        if r.returncode == 0:
            ok = True
            break
        sh(["git", "-C", WT, "reset", "-q", "--hard"])
    meta["applies"] = ok
    if not ok:
        print(json.dumps(meta)); print("PATCH DOES NOT APPLY"); return 2
    diff = sh(["git", "-C", WT, "diff"]).stdout
    env = dict(os.environ, PYTHONPATH=WT, PYTHONDONTWRITEBYTECODE="1")
    demo = os.path.join(src, "demo.py")
    # tests
    r = sh(["python3", os.path.join(VERIF, "tools", "baseline_check.py"), WT])
    meta["tests_pass_with_change"] = (r.returncode == 0)
    meta["ran"].append("tools/baseline_check.py <worktree with change>: " + r.stdout.strip().split("\n")[0])
    # demo on changed tree
    r1 = sh(["/venv/bin/python", demo], env=env, cwd="/dev/shm", timeout=900)
    meta["demo_fails_with_change"] = (r1.returncode != 0)
    meta["demo_output_with_change"] = (r1.stdout + r1.stderr).strip()[-400:]
    # checks against the changed tree
    caught = {}
    for c in checks:
        e2 = dict(os.environ, XV_REPO=WT)
        r = sh(["/venv/bin/python", "-m", "xv", "check", c, "--tier", "quick"], cwd=VERIF, env=e2, timeout=3600)
        lines = [l for l in r.stdout.split("\n") if l.startswith("# ")]
        caught[c] = {"exit": r.returncode, "violations": len([l for l in r.stdout.split("\n") if l.startswith("VIOLATION")]),
                     "first": [l[:240] for l in lines[:3]]}
        meta["ran"].append("XV_REPO=<worktree with change> /venv/bin/python -m xv check %s --tier quick -> exit %d" % (c, r.returncode))
    meta["checks"] = caught
    meta["caught_by"] = [c for c, v in caught.items() if v["exit"] == 1]
    # clean tree
    sh(["git", "-C", WT, "reset", "-q", "--hard"])
    r0 = sh(["/venv/bin/python", demo], env=env, cwd="/dev/shm", timeout=900)
    meta["demo_passes_clean"] = (r0.returncode == 0)
    notes = os.path.join(src, "notes.md")
    meta["needs_to_manifest"] = open(notes).read()[:1500] if os.path.exists(notes) else ""
    good = meta["tests_pass_with_change"] and meta["demo_fails_with_change"] and meta["demo_passes_clean"]
    meta["confirmed"] = good
    out = os.path.join(VERIF, "seeded", sid)
    if good:
        os.makedirs(out, exist_ok=True)
        open(os.path.join(out, "patch.diff"), "w").write(diff)
        shutil.copy(demo, os.path.join(out, "demo.py"))
        json.dump(meta, open(os.path.join(out, "meta.json"), "w"), indent=1)
    print("%s: applies=%s tests=%s demo_clean=%s demo_mutant_fails=%s caught_by=%s%s" % (
        sid, ok, meta["tests_pass_with_change"], meta["demo_passes_clean"], meta["demo_fails_with_change"],
        meta["caught_by"], "" if good else "  ** NOT CONFIRMED, not stored **"))
    for c, v in caught.items():
        for l in v["first"][:1]:
            print("    ", l[:200])
    return 0


if __name__ == "__main__":
    sys.exit(main())
