#!/usr/bin/env python3
"""Re-run the checks recorded for every stored behaviour-preserving
refactoring (/verif/equivalent/<id>/) against the current checks and tree.

    tools/recheck_equivalent.py [lane k of n]

Uses a scratch worktree (XV_SEED_WT, default /tmp/wt/seedtest); prints one
line per refactoring; exits 1 if any check is not silent."""
import os, sys, json, subprocess

VERIF = os.path.dirname(os.path.dirname(os.path.abspath(__file__)))
WT = os.environ.get("XV_SEED_WT", "/tmp/wt/seedtest")


def sh(cmd, **kw):
    return subprocess.run(cmd, capture_output=True, text=True, **kw)


def main():
    k, n = (int(sys.argv[1]), int(sys.argv[2])) if len(sys.argv) > 2 else (0, 1)
    ids = sorted(os.listdir(os.path.join(VERIF, "equivalent")))
    if os.environ.get("XV_EQ_ONLY"):
        ids = [i for i in ids if i in os.environ["XV_EQ_ONLY"].split()]
    bad = 0
    for i, eid in enumerate(ids):
        if i % n != k:
            continue
        d = os.path.join(VERIF, "equivalent", eid)
        meta = json.load(open(os.path.join(d, "meta.json")))
        sh(["git", "-C", WT, "checkout", "-q", "--detach", "main"])
        sh(["git", "-C", WT, "reset", "-q", "--hard"])
        ok = False
        for extra in ([], ["-3"], ["--recount", "-C1"]):
            if sh(["git", "-C", WT, "apply"] + extra
                  + [os.path.join(d, "patch.diff")]).returncode == 0:
                ok = True
                break
            sh(["git", "-C", WT, "reset", "-q", "--hard"])
        if not ok:
            print("%s: patch no longer applies" % eid, flush=True)
            continue
        res = {}
        for c in meta["checks"]:
            r = sh(["/venv/bin/python", "-m", "xv", "check", c, "--tier",
                    "quick"], cwd=VERIF, env=dict(os.environ, XV_REPO=WT),
                   timeout=3600)
            res[c] = r.returncode
            if r.returncode:
                bad += 1
                print("   %s %s exit %d: %s" % (eid, c, r.returncode, [
                    l[:200] for l in r.stdout.split("\n")
                    if l.startswith("# ") or "HARNESS" in l][:3]), flush=True)
        print("%s: %s" % (eid, "all silent" if not any(res.values())
                          else "NOT SILENT %r" % res), flush=True)
        sh(["git", "-C", WT, "reset", "-q", "--hard"])
    return 1 if bad else 0


if __name__ == "__main__":
    sys.exit(main())
