#!/usr/bin/env python3
"""Rewrite section 7 of DESIGN.md from /verif/seeded/*/meta.json."""
import os, json, glob, re
VERIF = os.path.dirname(os.path.dirname(os.path.abspath(__file__)))
rows = []
for mf in sorted(glob.glob(os.path.join(VERIF, "seeded", "*", "meta.json"))):
    m = json.load(open(mf))
    need = m.get("needs_to_manifest", "")
    summary = m.get("summary")
    if not summary:
        # first informative line of the author's notes
        lines = [l.strip("#* -") for l in need.split("\n") if len(l.strip("#* -")) > 25]
        summary = (lines[0] if lines else "")[:150]
    first = ""
    for c in m.get("caught_by", []):
        f = m["checks"][c]["first"]
        if f:
            first = f[0].split(": ")[0].lstrip("# ")
            break
    rc = m.get("recheck") or {}
    if m.get("superseded"):
        final = "superseded by a repair (see meta.json)"
    elif m.get("expected_uncaught"):
        final = "not claimed (see note)"
    elif rc:
        final = "caught" if rc.get("exit") == 1 else "**MISSED**"
        if final == "caught" and rc.get("check") not in (None, m["property"]):
            final = "caught by %s" % rc["check"]
        if rc.get("first"):
            first = rc["first"][0].split(": ")[0].lstrip("# ")
    else:
        final = "caught" if m["property"] in m.get("caught_by", []) \
            else ("caught by %s" % m["caught_by"][0] if m.get("caught_by")
                  else "**MISSED**")
    at_first = ", ".join(m.get("caught_by", [])) or "nothing"
    rows.append((m["id"], m["property"] + (" (written for %s)" % m["written_for"]
                                           if m.get("written_for") else ""),
                 summary.replace("|", "/"), at_first, final,
                 first.replace("|", "/")))
out = ["## 7. Detection record", "",
       "Property-breaking changes kept under `/verif/seeded/<id>/` (`patch.diff`, `demo.py`,",
       "`meta.json`). Each was written by an independent sub-agent that saw only the",
       "property text and a scratch worktree (or is the reverse of one of the repairs of",
       "section 4), and was confirmed here: the patch applies to the current HEAD, the",
       "pinned test-suite still passes with it, `demo.py` passes on the clean tree and",
       "fails on the changed tree (`tools/seed.py`). 'when first seeded' = the quick-tier",
       "checks that exited 1 with the change applied at that time ('nothing' = it was",
       "missed and the check was strengthened afterwards); 'final' = the quick check of",
       "the change's own property - or, where the effect the change has belongs to",
       "another property ('caught by Cxx'), that property's check - re-run against the",
       "final machinery (`tools/recheck_seeds.py`); 'key' = the first violation key",
       "reported.", "",
       "| seeded change | property | what it is | when first seeded | final | key |",
       "|---|---|---|---|---|---|"]
for r in rows:
    out.append("| %s | %s | %s | %s | %s | `%s` |" % r)
out.append("")
n_first = sum(1 for r in rows if r[1].split(" ")[0] in r[3])
out.append("%d changes; %d were caught by the check of their own property when first "
           "seeded, %d are caught by it now, %d by the check of the property that owns "
           "their effect, %d are missed, %d not claimed." % (
               len(rows), n_first, sum(1 for r in rows if r[4] == "caught"),
               sum(1 for r in rows if r[4].startswith("caught by")),
               sum(1 for r in rows if "MISSED" in r[4]),
               sum(1 for r in rows if r[4].startswith("not claimed")
                   or r[4].startswith("superseded"))))
out.append("")
p = os.path.join(VERIF, "DESIGN.md")
s = open(p).read()
i = s.index("## 7. Detection record")
j = s.find("\n## 8.", i)
s = s[:i] + "\n".join(out) + (s[j:] if j > 0 else "\n")
open(p, "w").write(s)
print("\n".join(out[-3:]))
