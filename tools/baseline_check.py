#!/usr/bin/env python3
"""Run the pinned test suite in <repo> (default /repo) and report every
stable_pass test of /root/.vp/BASELINE.json that does not pass.
Exit 0 iff all stable tests pass."""
import sys, os, json, subprocess, tempfile
import xml.etree.ElementTree as ET

repo = sys.argv[1] if len(sys.argv) > 1 else "/repo"
base = json.load(open("/root/.vp/BASELINE.json"))
fd, xml = tempfile.mkstemp(suffix=".xml", dir="/dev/shm"); os.close(fd)
env = dict(os.environ, PYTHONPATH=repo, PYTHONDONTWRITEBYTECODE="1")
subprocess.run(["/venv/bin/python", "-m", "pytest", "-q", "-p", "no:cacheprovider",
                "--timeout=900", "--continue-on-collection-errors", "-x" if "-x" in sys.argv else "-q",
                "--junitxml=" + xml], cwd=repo, env=env,
               stdout=subprocess.DEVNULL, stderr=subprocess.DEVNULL)
passed = set()
for tc in ET.parse(xml).getroot().iter("testcase"):
    if not any(c.tag in ("failure", "error", "skipped") for c in tc):
        passed.add(tc.get("classname") + "::" + tc.get("name"))
os.unlink(xml)
missing = [t for t in base["stable_pass"] if t not in passed]
# a stable test that fails once may be flaky (e.g. the random sampling in
# TestFromRepeats): re-run just those, twice at most
for _ in range(2):
    if not missing or len(missing) > 10:
        break
    ids = []
    for t in missing:
        cls, name = t.split("::")
        parts = cls.split(".")
        ids.append("/".join(parts[:-1]) + ".py::" + parts[-1] + "::" + name)
    fd, xml = tempfile.mkstemp(suffix=".xml", dir="/dev/shm"); os.close(fd)
    subprocess.run(["/venv/bin/python", "-m", "pytest", "-q", "-p", "no:cacheprovider",
                    "--timeout=900", "--junitxml=" + xml] + ids, cwd=repo, env=env,
                   stdout=subprocess.DEVNULL, stderr=subprocess.DEVNULL)
    for tc in ET.parse(xml).getroot().iter("testcase"):
        if not any(c.tag in ("failure", "error", "skipped") for c in tc):
            passed.add(tc.get("classname") + "::" + tc.get("name"))
    os.unlink(xml)
    missing = [t for t in base["stable_pass"] if t not in passed]
print("stable_pass: %d, passing now: %d, missing: %d" % (len(base["stable_pass"]), len(base["stable_pass"]) - len(missing), len(missing)))
for t in missing[:20]:
    print("  NOT PASSING:", t)
sys.exit(1 if missing else 0)
