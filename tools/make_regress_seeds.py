#!/usr/bin/env python3
"""Build candidate 'regression' seeds: the reverse of each repair of /repo
(DESIGN.md section 4) with a demonstration program, under /dev/shm/regress/.
They are then verified and stored by tools/seed.py like any other seed."""
import os
import shutil
import subprocess

OUT = "/dev/shm/regress"
HDR = '''import sys, os, warnings, shutil, tempfile
warnings.simplefilter('ignore'); os.environ['TQDM_DISABLE']='1'
import numpy as np, xyzpy as xyz
d = tempfile.mkdtemp(dir='/dev/shm')
def f(a, b): return 10*a + b
try:
'''
FTR = '''
finally:
    shutil.rmtree(d, ignore_errors=True)
print('PASS')
'''
DEMOS = {
    'R-a-cloudpickle|1f4546f|C04|every Crop.sow_* raises ModuleNotFoundError when joblib does not vendor cloudpickle (any sow at all)': '''
    c = xyz.Crop(fn=f, name='c', parent_dir=d); c.sow_combos({'a':[1,2],'b':[3]}, verbosity=0); c.grow_missing(verbosity=0)
    assert c.reap() == ((13,),(23,))''',
    'R-b-df-shuffle|c186cc9|C03|DataFrame rows mis-paired; needs to_df together with a truthy shuffle': '''
    df = xyz.combo_runner_to_df(f, {'a':[1,2,3],'b':[4,5]}, var_names='out', shuffle=True, verbosity=0)
    assert len(df[df.out != 10*df.a + df.b]) == 0, df''',
    'R-c-sow_cases-shuffle|7fca08c|C04|needs Crop(shuffle=...) given to the constructor together with sow_cases and >= 3 cases': '''
    c = xyz.Crop(fn=f, name='c', parent_dir=d, shuffle=True)
    cases = [(1,4),(2,5),(3,6),(4,7),(5,8)]
    c.sow_cases(['a','b'], cases, verbosity=0); c.grow_missing(verbosity=0)
    got = c.reap()
    assert [got[i][i] for i in range(5)] == [14,25,36,47,58], got''',
    'R-h-sampler-delete-first|6cc103d|C12|needs a Sampler crop whose table cannot be saved (failing save): crop deleted before the save': '''
    s = xyz.Sampler(xyz.Runner(f, var_names='out'), data_name=os.path.join(d,'nodir','s.pkl'), default_combos={'a':[1,2],'b':[3]})
    c = s.Crop(name='c', parent_dir=d); c.sow_samples(3, verbosity=0); c.grow_missing(verbosity=0)
    try: c.reap()
    except Exception: pass
    assert os.path.exists(c.location), 'crop deleted although the table could not be saved' ''',
    'R-i-sge-bracket|c879a3d|C16|needs scheduler sge, array mode and a partial selection (some results present or explicit batch_ids)': '''
    c = xyz.Crop(fn=f, name='c', parent_dir=d, batchsize=1)
    c.sow_combos({'a':[1,2,3],'b':[4]}, verbosity=0); c.grow(1, verbosity=0)
    s = c.gen_cluster_script('sge', output_directory=d)
    prog = s.split('<< EOM')[1].split('EOM')[0].replace('$SGE_TASK_ID','1')
    compile(prog, 'embedded', 'exec')''',
    'R-k-format-digits|f165d99|C20|needs an error whose two-digit rounding carries to the next power of ten in the hidden-exponent branch (err mantissa 9.95-10, abs(x) in 10..100)': '''
    s = xyz.utils.format_number_with_error(99.9, 9.96)
    assert s == '100(10)', s''',
    'R-f-datafile-inplace|6cc469a|C10|needs a process killed between the removal and the rewrite of a harvester / sampler data file': '''
    import unittest.mock as um
    h = xyz.Harvester(xyz.Runner(f, var_names='out'), data_name=os.path.join(d,'data.h5'))
    h.harvest_combos({'a':[1],'b':[4]}, verbosity=0)
    # simulate the kill: the save of the merged file never happens
    with um.patch('xyzpy.gen.farming.save_ds', side_effect=KeyboardInterrupt):
        try: h.harvest_combos({'a':[2],'b':[4]}, verbosity=0)
        except KeyboardInterrupt: pass
    ds = xyz.load_ds(os.path.join(d,'data.h5'))
    assert float(ds.out.sel(a=1,b=4)) == 14''',
    'R-g-results-inplace|f8c51e2|C11|needs a reader (reap(wait=True) or a progress query) scheduled between the creation and the completion of a result file': '''
    import pickle, unittest.mock as um
    c = xyz.Crop(fn=f, name='c', parent_dir=d); c.sow_combos({'a':[1],'b':[4]}, verbosity=0)
    seen = []
    real_dump = pickle.dump
    def spying_dump(obj, fh, *a, **k):
        # what does a concurrent observer see while the result is being written?
        if 'result' in getattr(fh, 'name', ''):
            seen.append(xyz.Crop(name='c', parent_dir=d).num_results)
        return real_dump(obj, fh, *a, **k)
    with um.patch('pickle.dump', spying_dump):
        c.grow(1, verbosity=0)
    assert seen and max(seen) == 0, 'an unfinished result was counted: %r' % seen''',
    'R-e2-short-last-batch|d518bff|C09|needs a batchsize that does not divide N and the short last batch missing from a partial reap': '''
    c = xyz.Crop(fn=f, name='c', parent_dir=d, batchsize=2)
    c.sow_combos({'a':[1,2,3,4,5],'b':[4]}, verbosity=0); c.grow([1,2], verbosity=0)
    r = c.reap(allow_incomplete=True)
    assert r[0][0] == 14 and np.isnan(r[4][0])''',
    'R-m-bool-placeholder|21f8a34|C09|needs bool or str results and a partial reap': '''
    def g(a): return a > 1
    c = xyz.Crop(fn=g, name='c', parent_dir=d, batchsize=1)
    c.sow_combos({'a':[1,2,3]}, verbosity=0); c.grow([1,3], verbosity=0)
    r = c.reap(allow_incomplete=True)
    assert r == (False, None, True), r''',
    'R-n-str-in-df|7e02158|C03|needs a single string-valued output and DataFrame form': '''
    def g(a): return 'val%d' % a
    df = xyz.combo_runner_to_df(g, {'a':[1,2]}, var_names='out', verbosity=0)
    assert list(df.out) == ['val1','val2'], df''',
    'R-o-empty-first-var_dims|0d82c6d|C03|needs positional var_dims whose first entry is empty': '''
    from xyzpy.gen.prepare import parse_var_dims
    assert parse_var_dims([[], ['t']], ['x','y']) == {'x': (), 'y': ('t',)}''',
    'R-p-const-dim-attr|8449654|C06|needs a Runner constant that names an internal dimension and the result to come from a crop': '''
    def g(a, t): return np.array([a + x for x in t])
    r = xyz.Runner(g, var_names='out', var_dims={'out': ['t']}, constants={'t': [0.5, 1.5]})
    c = r.Crop(name='c', parent_dir=d); c.sow_combos({'a':[1,2]}, verbosity=0); c.grow_missing(verbosity=0)
    ds = c.reap()
    assert 't' in ds.coords and list(ds.t.values) == [0.5, 1.5], ds''',
    'R-i2-num_workers-typeerror|677cd11|C16|needs num_workers without num_procs': '''
    c = xyz.Crop(fn=f, name='c', parent_dir=d); c.sow_combos({'a':[1],'b':[4]}, verbosity=0)
    c.gen_cluster_script('slurm', num_workers=2, output_directory=d)''',
    'R-j1-colorbar-ax|c9a4b40|C17|needs any plot that draws a colorbar (default heat map; colors=True with > 10 series or colorbar=True)': '''
    import matplotlib; matplotlib.use('Agg')
    import xarray as xr
    ds = xr.Dataset({'z': (('y','x'), np.arange(6.).reshape(2,3))}, coords={'x':[1.,2.,3.],'y':[1.,2.]})
    xyz.heatmap(ds, 'x', 'y', 'z')''',
    'R-j2-asscalar|83a7f7c|C17|needs lineplot with c=<variable>': '''
    import matplotlib; matplotlib.use('Agg')
    import xarray as xr
    ds = xr.Dataset({'y': (('x','z'), np.arange(6.).reshape(3,2)), 'c': (('z',), [1., 2.])}, coords={'x':[1.,2.,3.],'z':[1,2]})
    xyz.lineplot(ds, 'x', 'y', 'z', c='c')''',
    'R-r-scatter-norm|1b4673f|C17|needs scatter with c=<variable> and >= 2 z series whose c ranges differ': '''
    import matplotlib; matplotlib.use('Agg')
    import xarray as xr
    ds = xr.Dataset({'y': (('x','z'), np.arange(6.).reshape(3,2)), 'c': (('x','z'), np.array([[1.,10.],[2.,20.],[3.,30.]]))}, coords={'x':[1.,2.,3.],'z':[1,2]})
    fig = xyz.scatter(ds, 'x', 'y', 'z', c='c')
    cols = [a for a in fig.axes if a.get_label() != '<colorbar>'][0].collections
    for cc in cols: cc.update_scalarmappable()
    # c=3 in series 0 and c=30 in series 1 must not get the same colour
    assert not np.allclose(cols[0].get_facecolors()[-1], cols[1].get_facecolors()[-1])''',
    'R-q-sow-constants|673f00b|C06|needs constants given to sow_combos / sow_cases that override the constants stored in the runner': '''
    def g(a, k=0): return a + k
    r = xyz.Runner(g, var_names='out', constants={'k': 7})
    c = r.Crop(name='c', parent_dir=d); c.sow_combos({'a':[1,2]}, constants={'k': 5}, verbosity=0); c.grow_missing(verbosity=0)
    ds = c.reap()
    assert ds.attrs['k'] == 5 and list(ds.out.values) == [6, 7], ds''',
    'R-l-infiniplot-bins|075a5dd|C18|needs infiniplot histogram mode with bins=None or an integer': '''
    import matplotlib; matplotlib.use('Agg')
    import xarray as xr
    ds = xr.Dataset({'v': (('s',), np.arange(10.))})
    xyz.infiniplot(ds, 'v', bins=4, show_and_close=False)''',
}

REGRESS_D = '''--- a/xyzpy/gen/farming.py
+++ b/xyzpy/gen/farming.py
'''


def main():
    os.makedirs(OUT, exist_ok=True)
    for spec, body in DEMOS.items():
        sid, commit, pid, needs = spec.split('|', 3)
        dd = os.path.join(OUT, sid)
        os.makedirs(dd, exist_ok=True)
        diff = subprocess.run(["git", "-C", "/repo", "diff", commit, commit + "^"],
                              capture_output=True, text=True).stdout
        open(os.path.join(dd, 'patch.diff'), 'w').write(diff)
        open(os.path.join(dd, 'demo.py'), 'w').write(HDR + body.strip('\n') + FTR)
        open(os.path.join(dd, 'notes.md'), 'w').write(
            'Reverse of repair %s (section 4 of DESIGN.md): the defect as it was '
            'in the original tree. %s.\n' % (commit, needs))
        open(os.path.join(dd, 'pid'), 'w').write(pid)
    # d: the reverse of 944a0cb conflicts with a later repair; hand-adapted
    dd = os.path.join(OUT, 'R-d-extensionless-name')
    os.makedirs(dd, exist_ok=True)
    if os.path.exists('/dev/shm/mut/regress_d.diff'):
        shutil.copy('/dev/shm/mut/regress_d.diff', os.path.join(dd, 'patch.diff'))
    open(os.path.join(dd, 'demo.py'), 'w').write(HDR + '''    r = xyz.Runner(f, var_names='out')
    xyz.Harvester(r, data_name=os.path.join(d,'hdata')).harvest_combos({'a':[1],'b':[4]}, verbosity=0)
    xyz.Harvester(r, data_name=os.path.join(d,'hdata')).harvest_combos({'a':[2],'b':[4]}, verbosity=0)
    ds = xyz.load_ds(os.path.join(d,'hdata'))
    assert list(ds.a.values) == [1,2], ds''' + FTR)
    open(os.path.join(dd, 'notes.md'), 'w').write(
        'Regression of repair 944a0cb (hand-adapted to the current tree): '
        'Harvester.load_full_ds looks for the existing file under the bare name. '
        'Needs a data_name without extension and a second harvest by a new '
        'Harvester object.\n')
    open(os.path.join(dd, 'pid'), 'w').write('C05')
    print(sorted(os.listdir(OUT)))


if __name__ == '__main__':
    main()
