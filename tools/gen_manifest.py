#!/usr/bin/env python3
"""Regenerate /verif/MANIFEST.json from the table below (kept valid at all
times; properties without a built check are listed under not_applicable with
the reason 'check not built yet')."""
import os
import json

VERIF = os.path.dirname(os.path.dirname(os.path.abspath(__file__)))
PY = "/venv/bin/python"

# pid -> (category, technique, text, note, design_ref)
CHECKS = {
    "C07": (
        "exploration",
        "exhaustive enumeration of a finite configuration lattice on the real code",
        "Every (N, batchsize | num_batches) request in the stated range x input "
        "form x shuffle x constants source is sown into a fresh crop by the real "
        "Crop/Sower code and every batch is read back by growing it with a "
        "recording function; the partition, size/count law, id range and "
        "reload-stability are checked on each one. Exhaustive over the stated "
        "lattice, which is exactly what the property quantifies over.",
        "Trusts the recording function's call log as the content of a batch and "
        "the harness's own product computation of the direct run (cross-checked "
        "against a real direct run in every case).",
        "DESIGN.md 3/C07",
    ),
    "C10": (
        "fault_enumeration",
        "exhaustive crash-point enumeration (every prefix + torn last write of the recorded file-operation log) with recovery replay on the real code",
        "Each workload (sow, re-sow, grow, Crop.grow, grow_missing, reap) on raw, "
        "Runner, Harvester (h5netcdf, joblib) and Sampler (pickle, csv) crops is "
        "executed once under a file-system seam that records every mutating "
        "operation; every prefix of that log and every torn prefix of every write "
        "is materialised as a disk state, and in each state fresh sessions run "
        "reap, reap(allow_incomplete), the documented recovery and the "
        "earlier-data-survives probe; the thorough tier repeats this for a second "
        "crash inside the recovery. The log is proved complete by byte-exact "
        "replay and a subset of states is reproduced with real SIGKILL.",
        "Process kill, not power loss (no block re-ordering); HDF5 writes are "
        "opaque and modelled as absent/empty/half/all-but-one/complete; a fresh "
        "session is new Python objects built from name and directory.",
        "DESIGN.md 3/C10",
    ),
    "C11": (
        "model_checking",
        "stateless model checking of the implementation: all interleavings of the actors' file operations under a controlled scheduler, sleep-set partial-order reduction, preemption bounds where stated",
        "Growers (xyz.grow / Crop.grow; distinct batches or the same batch "
        "twice), a reap(wait=True) and a progress poller run as real threads on "
        "a real crop directory; every file operation that can conflict with "
        "another actor is a scheduling point owned by the explorer, which "
        "enumerates every schedule depth-first up to sleep-set equivalence "
        "(and up to a preemption bound for the largest configurations). In every "
        "complete execution the reaper must return exactly the direct result, no "
        "actor may raise, and every progress observation is compared with the "
        "set of results that were completely written at that instant.",
        "POSIX-local file system, operations atomic per system call, rename "
        "atomic; clean_up=False; crops of 1-3 batches, 1-3 raw writes per "
        "result; operations proven private to one actor (accumulated over all "
        "executions, exploration restarted whenever that knowledge grows) are "
        "not scheduling points; a wall-clock budget cuts off trees whose "
        "schedule space explodes (never reached on the current tree).",
        "DESIGN.md 3/C11",
    ),
    "C08": (
        "model_checking",
        "explicit-state breadth-first search over API-call histories with the implementation as transition relation, states de-duplicated on a canonical form, reference-model comparison in every state",
        "Breadth-first search to fix-point (depth bound 12) over histories of "
        "sow, re-sow, grow, Crop.grow(subset), grow_missing, failing grows "
        "(through xyz.grow, Crop.grow and grow_missing), result deletion, "
        "check_bad and reload on crops of 1..8 batches with and without "
        "remainder. Every transition replays its whole history on fresh real "
        "objects, then the progress queries of the live Crop object and of a "
        "freshly loaded one are compared with the disk truth (independent "
        "reader of result files) and with the reference model (a set of batch "
        "ids); call logs and tree diffs check that each event did exactly what "
        "it should and nothing else.",
        "State = (tree hash, sower/reloaded object); merged states are assumed "
        "to have equal futures (deterministic library); the never-sown crop is "
        "only required to report not ready.",
        "DESIGN.md 3/C08",
    ),
    "C09": (
        "exploration",
        "exhaustive enumeration of a finite configuration lattice on the real code",
        "Every (N <= 2B+1, batchsize | num_batches) request giving B = 2..7 "
        "batches x every non-empty proper subset of finished batches x shuffle x "
        "reap form (raw, Dataset, DataFrame) x result kind is sown, partly grown "
        "and reaped by the real code: refusal without allow_incomplete, "
        "position-by-position exact-or-missing comparison of the partial reap, "
        "untouched tree, then completion and exact full reap with clean-up.",
        "Which settings belong to finished batches is taken from the call log "
        "of growing exactly those batches; quick tier rotates forms/kinds over "
        "the (request, subset) lattice instead of taking the full product.",
        "DESIGN.md 3/C09",
    ),
    "C04": (
        "model_checking",
        "exhaustive enumeration of the sow-configuration lattice plus explicit-state BFS over grow histories on the real code, with real-pool and real-process conformance runs",
        "Layer 1 enumerates N = 1..40 settings (grids with non-alphabetical "
        "argument names, case lists in tuple and dict spelling, cases x "
        "sub-grid) x every batchsize / num_batches request x shuffle given to "
        "the constructor or the sow call x grow order x grow entry point x "
        "reload pattern, and compares the reaped result with the direct run "
        "leaf by leaf. Layer 2 is a BFS to fix-point over histories of grow, "
        "grow through a fresh Crop, Crop.grow(subset), grow_missing on crops of "
        "<= 5 batches (all permutations, partitions and repetitions of batch ids "
        "are paths of that graph) with the reap compared in every complete "
        "state. Parallel growing is run on the real loky pool with a function "
        "whose first setting is slowest, and a seed-chosen subset is re-run with "
        "every step in its own python process.",
        "Beyond N=8 the secondary dimensions rotate instead of forming the full "
        "product; raw tuples are compared by grid position accepting given or "
        "name-sorted axis order.",
        "DESIGN.md 3/C04",
    ),
    "C06": (
        "exploration",
        "exhaustive enumeration of a finite configuration lattice on the real code, differential against a twin farmer's direct run",
        "Six runner descriptions x grid / case / mixed inputs x farmer kind "
        "(Runner, Runner->DataFrame, Harvester with each overwrite policy over "
        "disjoint, equal and conflicting existing data and both engines, "
        "Sampler with scripted draws) x shuffle x batch request x the four "
        "patterns of which of grow and reap use a Crop rebuilt from disk; each "
        "is sown, grown in descending order and reaped, and the Dataset / "
        "DataFrame, the farmer's last result, full_ds and the decoded on-disk "
        "data are compared with the direct call on a twin farmer (a raise must "
        "be matched by the same raise).",
        "Quick tier takes a hash-selected 2/7 of the lattice; reload is "
        "in-process (real processes are in C04's conformance pass).",
        "DESIGN.md 3/C06",
    ),
    "C12": (
        "fault_enumeration",
        "exhaustive single-fault enumeration: one OSError injected at every file operation of the reap, plus every semantic failure mode, each followed by the corrected retry, on the real code",
        "Every mix of clean_up x allow_incomplete x wait x farmer kind x crop "
        "state is reaped by the real code with each failure cause (incomplete "
        "crop, unreadable result, wrong output description, merge conflict) and "
        "with one injected OSError at each open/read/write/close/rename "
        "operation of the reap (positions taken from a recorded fault-free "
        "run and verified when hit). After a raise the crop directory must be "
        "byte-identical and the corrected retry must deliver the exact result "
        "and data file; after success the directory must exist iff the "
        "documented rule says so; for Harvester and Sampler the recorded log "
        "must show the deletion after the last data-file operation.",
        "HDF5 writes are not fault-injectable (joblib/pickle engines cover the "
        "data-file path); stat/list are not faulted; faults inside the clean-up "
        "itself are out of scope of the property.",
        "DESIGN.md 3/C12",
    ),
    "C05": (
        "model_checking",
        "explicit-state breadth-first search over operation histories on the real Harvester with a two-dict reference model compared in every state",
        "BFS over histories of harvest_combos (regions x two function versions x "
        "three overwrite policies x sync on/off), harvest_cases, add_ds, "
        "save_merge_ds, expand_dims, drop_sel and 'new session' on a real "
        "Harvester, for data names with and without extension and both engines. "
        "Every transition replays its history on fresh objects; afterwards the "
        "decoded disk file, the public full_ds and the file listing are compared "
        "with a reference model of two dicts (memory, disk) that implements the "
        "three policies, the conflict-must-raise rule and the name rule.",
        "Depth / state bounds (stated in the evidence per configuration) stop "
        "the search before the fix-point; unsynced-only points follow the "
        "documented replace-by-disk rule.",
        "DESIGN.md 3/C05",
    ),
    "C15": (
        "model_checking",
        "explicit-state breadth-first search over sampling histories on the real Sampler with scripted draws and a list-of-rows reference model",
        "BFS to depth 3 (quick) / 4 (thorough) over sample_combos runs with "
        "every scripted draw sequence over 2x2 choices, choice overrides, an "
        "additional argument, extra constants, the numpy random-choice path "
        "with pinned seeds, sow_samples+grow+reap with two batch sizes, and new "
        "Sampler objects, for the pickle and csv engines. After every transition "
        "the run's own frame, the in-memory table, the decoded file and a new "
        "sampler's view are compared with the reference list of rows.",
        "The table grows monotonically, so the search is depth-bounded, not a "
        "fix-point; a state cap may stop expansion at the last level (reported).",
        "DESIGN.md 3/C15",
    ),
    "C01": (
        "exploration",
        "exhaustive enumeration of a finite input/strategy lattice on the real code, including every completion order of controlled futures (schedule enumeration)",
        "Grids of 1-5 arguments x 1-4 values with unsorted typed value pools, "
        "all spellings, 0-2 constants, result kinds x split x flat are swept by "
        "the real combo_runner under sequential, shuffled and executor "
        "strategies. The executors are controlled objects handing out genuine "
        "futures whose completion order is chosen by the explorer: every "
        "permutation for <= 5 settings, FIFO / reversal / all orders within two "
        "adjacent transpositions beyond. Call log (exactly once per combination "
        "with exactly the constants) and leaf-by-leaf placement are checked; "
        "sweeps are also repeated right after a sweep over ==-equal values of "
        "other types (non-initial process state). Real thread / process / loky "
        "pools run on a few grids as conformance.",
        "Quick tier rotates secondary dimensions; real pools' completion order "
        "is whatever the OS gives.",
        "DESIGN.md 3/C01",
    ),
    "C02": (
        "exploration",
        "exhaustive enumeration of case subsets and orders on the real code",
        "Every non-empty subset (all, or size <= 4 for the larger universes) of "
        "the argument universes 2x2, 3x2, 2x2x2, 3x3, 2x2x2x2 is requested as a "
        "case set, in all orders for <= 3 cases and three orders beyond, in dict "
        "spelling with varying key order (combo_runner) and tuple spelling "
        "(case_runner), with 0-2 grid arguments crossed in, eight result kinds, "
        "shuffle, flat / nested and split. Call log, axis = sorted union, own "
        "value in every requested slot and a correctly shaped all-missing "
        "placeholder everywhere else are checked; overlapping case and grid "
        "arguments must be rejected with an empty call log.",
        "Case values are mutually sortable per argument.",
        "DESIGN.md 3/C02",
    ),
    "C03": (
        "exploration",
        "exhaustive enumeration of a finite input x description x entry-point lattice on the real code",
        "Grids and case sets x twelve output descriptions in every accepted "
        "spelling of var_names / var_dims / var_coords (including constants that "
        "name a dimension, resources, attrs, Dataset / DataArray / dict results) "
        "x entry point (combo/case_runner_to_ds, *_to_df, Runner.run_*, label()- "
        "made Runner and Harvester) x {sequential, shuffled, controlled executor "
        "completing in reverse}. Every grid point is selected by label and "
        "compared with the function's value; dims order, coordinates, "
        "constants-as-coordinate-or-attribute, absence of resources, attrs, "
        "last_ds identity and, for DataFrames, row-internal pairing of arguments "
        "and outputs are checked.",
        "Quick tier takes every third spelling / entry point.",
        "DESIGN.md 3/C03",
    ),
    "C13": (
        "exploration",
        "exhaustive enumeration of null-pattern lattices against a brute-force oracle on the real code",
        "For each parameter grid, variable count, internal-dimension setting, "
        "coordinate type and criterion, every assignment of a kind (data, all "
        "null, one variable null, partly null, +-inf) to every location is "
        "built as a Dataset (full product while it fits the tier's cap, fewer "
        "kinds or at most three deviating locations beyond) and "
        "find_missing_cases / parse_into_cases are compared with a brute-force "
        "numpy oracle (set, order, no duplicates, foreign coordinates, input "
        "unchanged). The find -> harvest -> find loop runs on a real Harvester "
        "from every 2x2 dataset.",
        "Grid order is taken as row-major over the dataset's own dimension "
        "order; string-valued variables are not generated.",
        "DESIGN.md 3/C13",
    ),
    "C14": (
        "exploration",
        "exhaustive enumeration of a finite dataset x engine x name x operation lattice on the real code",
        "Datasets with 0-4 dimensions, five variable dtypes, three coordinate "
        "dtypes, NaN patterns and attribute types are saved and loaded with "
        "both available engines under names with / without extension and in a "
        "dotted directory, eagerly and lazily, through save_ds/load_ds, "
        "save_merge_ds and Harvester save / new-session load / delete; the "
        "loaded dataset must equal the original up to the documented attribute "
        "rewriting and the directory must contain exactly the expected file.",
        "netCDF4 / zarr are not importable here; equality is checked on values, "
        "dtype kind, dims, coordinates and attributes.",
        "DESIGN.md 3/C14",
    ),
    "C19": (
        "model_checking",
        "explicit-state depth-first search over the Welford recurrence's state with an exact rational oracle in every state; exhaustive enumeration of the stopping rule",
        "Every update sequence up to depth 6 / 8 over five-value alphabets in "
        "five offset / spread regimes (up to 1e9 offset, 1e-3 spread) is fed to "
        "the real RunningStatistics; in every state count, mean, var, std, err "
        "and rel_err are compared with Fraction arithmetic on the actual float "
        "inputs under the Chan-Golub-LeVeque bound, and the same values re-fed "
        "through update_from_it in chunks must give the bit-identical state. "
        "RunningCovariance and RunningCovarianceMatrix (2-4 series) likewise. "
        "estimate_from_repeats is enumerated over all (rtol, tol_scale, "
        "min_samples, max_samples) and every deterministic sample sequence.",
        "Depth 8, not 500 samples; accuracy bound as stated in the evidence "
        "assumptions; borderline convergence margins (< 1e-12) skipped and "
        "counted.",
        "DESIGN.md 3/C19",
    ),
    "C20": (
        "exploration",
        "exhaustive enumeration of a decimal lattice dense around every rounding boundary, with an independent reader as oracle",
        "About 2.4 million (quick) / 30 million (thorough) (x, err) pairs - all "
        "three-digit error mantissas plus 9.950..9.999, sixty boundary value "
        "mantissas, both signs, zero, value exponents -300, -12..12, 300 and "
        "error/value offsets -12..12 - are formatted by the real function and "
        "read back by an independent regex + Decimal reader that demands the "
        "error to two significant digits and the value rounded to the same last "
        "digit.",
        "A bounded lattice, not all floats; ties accepted either way (relative "
        "slack 1e-9).",
        "DESIGN.md 3/C20",
    ),
    "C16": (
        "exploration",
        "exhaustive enumeration of scheduler x mode x crop-state x selection x option lattice; every generated script is executed",
        "For every scheduler, mode, crop state (every subset of finished "
        "batches), batch_ids selection and option set the script is generated "
        "by the real code, checked with bash -n, its array range parsed, and "
        "run with bash once per index with the scheduler's variable set; a stub "
        "launcher captures the embedded program after shell substitution, which "
        "must compile and is executed in-process. The batches actually grown "
        "(call log), the finished set, readiness and the exact reap are "
        "compared with the intended set (requested ids / missing at generation "
        "time / missing at run time). The xyzpy-grow entry point is run from "
        "every state. A conformance subset uses the real interpreter and the "
        "installed console script.",
        "bash with stub scheduler variables stands in for SGE / PBS / SLURM; "
        "num_workers programs are executed only in the real-interpreter subset.",
        "DESIGN.md 3/C16",
    ),
    "C17": (
        "exploration",
        "exhaustive enumeration of a finite dataset x NaN-mask x plot-kind x option lattice; drawn artists read back and compared with a numpy recomputation",
        "Datasets with 1-3 x points and 1-12 z series (numeric and string), "
        "optional row / column dimensions, every NaN mask (quick: <= 2 holes, "
        "thorough: all 2^9), inf cells, all-NaN series and datasets, several y "
        "variables, error bars and c variables are plotted by the real lineplot "
        "/ scatter / histogram / heatmap functions and their auto_* forms with "
        "options one at a time and in pairs (Agg backend). From the returned "
        "Figure the Line2D / PathCollection / Polygon / QuadMesh artists are "
        "read back: one series per z value or variable, in order, labelled, "
        "exactly the finite (x, y) pairs; histogram densities against "
        "np.histogram; mesh values, mask and cell edges; panel titles / row "
        "labels against the slice drawn; colours against colour map(norm(value)); "
        "input dataset unchanged.",
        "Options outside the property's list (padding, limits, fonts, ticks) are "
        "not inspected; heat-map axes uniform; stacked histograms only have to "
        "draw; colors=True is only combined with a z coordinate or c variable.",
        "DESIGN.md 3/C17",
    ),
    "C18": (
        "exploration",
        "exhaustive enumeration of dimension-to-property assignments x dataset shapes x NaN patterns x modes; drawn artists read back and compared with a numpy recomputation",
        "Datasets whose y values encode their own coordinates are plotted by the "
        "real infiniplot for every injective assignment of up to three (and a "
        "deterministic share of four) dimensions to the eight mappable "
        "properties, with NaN points, slices and whole coordinates, fused "
        "dimensions, explicit orders, unmapped dimensions and "
        "join_across_missing. From the returned axes every Line2D is decoded "
        "back to its slice: each slice with data exactly once, in the panel of "
        "its row / column coordinate, exactly its x and y values; equal mapped "
        "coordinates share the style value and different ones differ while "
        "distinct defaults remain; panel titles name the coordinate. "
        "Aggregation (median / mean x quantile / std / stderr x bands / bars), "
        "histogram mode (bins None / int / edges, density / counts) and heat-map "
        "mode (palette on / off, row / col, aggregated) are compared with numpy; "
        "the input dataset must be unchanged.",
        "All-NaN dataset excluded; without a palette only equality / grey / "
        "layout of the heat-map colours are checked; legends are not inspected.",
        "DESIGN.md 3/C18",
    ),
}

NOT_BUILT = "check not built yet in this session (design in DESIGN.md section 3)"



# additions made after the first build (appended to the level text)
ADDED = {
    "C01": "Also: a falsy seed, arguments without any value, the caller's own "
           "combos / constants objects swept twice (second sweep judged) and "
           "grids of 81-1024 settings under every strategy, values of several "
           "types within one argument, values given as tuples / generators / "
           "arrays, constants taken through **kwargs, array / list results "
           "split.",
    "C02": "Also: the same request through a long-lived Runner that ran with "
           "another argument order before, integer-array results, mixed numeric "
           "and tuple-valued case values, cases as one-shot iterators.",
    "C03": "Also: falsy constants / attributes, declared argument order "
           "different from the signature, and the caller's same case dicts "
           "swept twice, mixed numeric and un-orderable (complex) case values, "
           "an earlier run with the argument names given in the other order.",
    "C04": "Also: crops of 101-128 batches; the BFS state includes whether "
           "the long-lived Crop object took part; an earlier un-reaped sweep "
           "(other shuffle / constant) through the same Crop object.",
    "C05": "Also: a second long-lived Harvester, a lazily loading (chunks) "
           "Harvester, ellipsis combos through one re-used dict, and the "
           "dataset replaced by one without variables, a fractional coordinate "
           "value joining integer ones, dict cases with varying key order.",
    "C06": "Also: constants given at sow time (including falsy overrides), "
           "another session harvesting into the file between sow and reap, an "
           "earlier complete round through the same Crop object, a shuffle "
           "given to the constructor, falsy constants / resources / attrs, an "
           "earlier un-reaped sweep (also of another function version under "
           "the same crop name).",
    "C07": "Also: cases x sub-grid through sow_cases, falsy constants, the "
           "farmer's constants changed and the same Crop sown again, a re-sow "
           "with exactly one batch less work (refused or right), crops of "
           "101-257 batches, the batch request given to the sow call, a constant "
           "of a new name given for one sow only, delete_all + sow again, a "
           "reloaded Crop sowing again; the reference run goes through a twin "
           "farmer.",
    "C08": "Also: finished results damaged from outside followed by check_bad, "
           "another session sowing another function over the empty crop, and "
           "crops of 12 and 101 batches with a sparser alphabet (bounded "
           "depth); failures by StopIteration, batch ids as a one-shot "
           "iterator, a batch count above the number of settings.",
    "C09": "Also: crops of 11-101 batches, integer / non-square / 3-d array "
           "results, and the same long-lived Crop sown again with another "
           "last batch, a shuffle given to the constructor only.",
    "C10": "The recovery re-runs the user's sow script (default autoload) "
           "instead of a forgiving fallback; a scenario with a short last "
           "batch and one sown shuffled were added; the recovery decides by "
           "what the crop reports and retries nothing; the pre-state is sown "
           "by the farmer that holds the earlier data.",
    "C12": "Also: failure and retry through one long-lived session, results "
           "shorter / longer than their batch (surplus entries that are falsy, "
           "bool results whose last value is False), a sampler without a "
           "table yet, a three-output function described with one name too "
           "few; the crop is sown from the farmer that holds the earlier data.",
    "C13": "Also: unlabelled internal dimensions and sequences of "
           "parse_into_cases queries (same arguments twice, fewer parameters "
           "next), dataset dimension order different from the variables' axis "
           "order, the find-harvest-find loop with the signature in the other "
           "order.",
    "C14": "Also: a second dataset saved under the same name (the one loaded "
           "before must keep its contents) and the engine given per call.",
    "C15": "Also: long-lived Crop objects sown repeatedly, per-sow constants "
           "overriding the Runner's, a long-lived list-choice Sampler with "
           "per-run overrides, a string-valued argument, a crop sown again "
           "before it is reaped; the state includes the live objects.",
    "C16": "Also: B = 12 (two-digit ids) with selected subsets / selections.",
    "C17": "Also: every stored dimension order, missing error values, z = 0, "
           "non-monotonic z values; the colour-map oracle does not use the "
           "library's lookup; option sets chosen by hash.",
    "C18": "Also: every stored dimension order and reordered sub-selections "
           "as explicit orders, two aggregated dimensions, fused dimensions in "
           "both orders with their labels checked.",
    "C19": "Also: samples of 33-500 values in every two-chunk split, "
           "estimates at scales 100 and 0.01; successor states are copies of "
           "the real objects and every intermediate matrix state is read; the "
           "covariance matrix fed in chunks (incl. square chunks).",
    "C20": "Also: exponents where the printed width changes (+-99/100/101) "
           "and the ends of the float range.",
}

# extensions of the later waves (appended after ADDED)
ADDED2 = {
    "C01": "The caller's executor re-used for a second sweep, executor plus "
           "num_workers through real pools (call log across processes), "
           "equal-but-differently-typed values on one axis (refused or right), "
           "a swept function raising StopIteration.",
    "C02": "Keyword-only parameters with inferred names, dict cases naming an "
           "undeclared argument, numpy-string results, the cases/grid clash "
           "through Runner, Harvester and Crop entry points.",
    "C03": "Grid values as one-shot generators, sub-grids as mappings or pairs "
           "through the Runner methods, bare string cases, the functional "
           "interface called twice with the same description objects.",
    "C04": "Crop locations containing the crop's own words and glob "
           "characters, an earlier sweep sown by another session with an older "
           "function version, batch ids as iterators, in-batch pools with a "
           "signature that is not in sown order.",
    "C05": "Runner attributes (bool / None / differing between versions), a "
           "session naming the other engine for the same file, integer-valued "
           "results.",
    "C06": "An earlier session's farmer description left on disk, per-sow "
           "constants in an earlier round, cases x unsorted sub-grid through "
           "sow_cases.",
    "C07": "One constants dict handed to every sow, Crop(autoload=False) over "
           "an existing crop, iterator-valued grid axes, the Crop factories of "
           "Runner / Harvester / Sampler.",
    "C09": "Crop locations containing crop words and glob characters, a "
           "Sampler's crop reaped partially.",
    "C10": "Both directory listing orders for the deleting workload, probe "
           "P1g (workers grow whatever batch files exist, then a plain reap), "
           "scenarios sown with shuffle=True.",
    "C11": "A Sampler's crop; operations below a directory another actor "
           "removes are scheduling points.",
    "C12": "A long-lived handle that looked at the crop before the sow script "
           "was run again with a larger sweep.",
    "C13": "Coordinate labels that are false as Python values, dimension names "
           "that are options of Dataset.sel, dict cases with varying key "
           "order, +inf next to finite values, datasets of integers / "
           "booleans / strings.",
    "C14": "String labels widened through a merge, deletion by a session that "
           "never loaded, saving through add_ds (also with the engine per "
           "call), another file lying under the bare name.",
    "C15": "A constant naming a sampled argument, generator objects with "
           "their own state handed to every new Sampler, a Sampler seeded "
           "with full_df, the engine given per call.",
    "C16": "Batch ids as a generator, a crop name with '=', space, brackets "
           "and a non-ASCII letter, the command line started elsewhere with "
           "the function in a module beside the crop, scripts generated for "
           "another crop just before.",
    "C17": "Grids coloured by a variable, the heat map's colour scale and "
           "colour map, grid labels on every panel, one-sided zlims, x limits "
           "on histograms, unrelated plots drawn before the judged one.",
    "C18": "The same plot again after other plots (styles equal, lines "
           "visible), heat-map colours are colours and one scale serves all "
           "panels, descending coordinates, other variables on dimensions the "
           "plotted one lacks.",
    "C19": "Samples as numpy scalars / 0-d / one-element arrays / one re-used "
           "buffer, every verbosity level.",
    "C20": "Every decimal exponent -306..306 with 13-digit values; tolerance "
           "of a few units of float precision.",
}


ADDED3 = {
    "C01": "Arguments named like the helpers' own parameters (fn, executor), "
           "floats that need all 17 digits.",
    "C03": "Results carrying a scalar coordinate named like a swept argument "
           "(refused, or labelled with the values swept).",
    "C04": "Constants given as pairs or as a one-shot iterator.",
    "C05": "Lazily loading harvesters on a new and on an existing file, the "
           "harvester copied / pickled between steps, labels of two "
           "dimensions dropped by one call, an existing dimension added "
           "again, the caller writing to the dataset it added.",
    "C06": "Reaped by a new session through the farmer built again.",
    "C07": "The sown crop opened again through its farmer, crops sown with "
           "save_fn=False.",
    "C08": "The function replaced on a live crop and re-sown, crops sown from "
           "cases, a refused re-sow, a function returning None, "
           "KeyboardInterrupt inside a batch.",
    "C09": "Crops of a Runner, handles made before the crop was sown (by "
           "name, or with the function).",
    "C11": "Copies go through the traced files block by block (a temporary "
           "in $TMPDIR on another device), a waiting reap with "
           "allow_incomplete.",
    "C12": "A grown, unreaped crop whose name begins like the one reaped.",
    "C14": "An earlier save with writer options of its own, a sibling dataset "
           "whose name begins alike survives delete_ds, a name with glob "
           "characters.",
    "C15": "A generator listed before a list of choices.",
    "C16": "Scheduler directives after the first command count as ignored.",
    "C17": "Float grid labels (titles read back as the coordinate), a label "
           "occurring twice on z, cells centred on their coordinates; "
           "non-positive x values on a logarithmic x axis (still drawn "
           "points of the series).",
    "C18": "Aggregation without any mapped dimension, infinite values; x "
           "that is itself a result varying from line to line (linked "
           "along a dimension) with NaNs in x, in y, in both, with and "
           "without join_across_missing: a point is drawn exactly where "
           "both exist.",
}


def main():
    props = [json.loads(l) for l in open(os.path.join(VERIF, "properties.jsonl"))]
    checks, na = [], []
    for p in props:
        pid = p["id"]
        if pid in CHECKS and os.path.exists(
            os.path.join(VERIF, "xv", "props", pid.lower() + ".py")
        ):
            cat, tech, text, note, ref = CHECKS[pid]
            if pid in ADDED:
                text = text + " " + ADDED[pid]
            if pid in ADDED2:
                text = text + " Later: " + ADDED2[pid]
            if pid in ADDED3:
                text = text + " Last waves: " + ADDED3[pid]
            checks.append({
                "property_id": pid,
                "quick_cmd": "%s -m xv check %s --tier quick" % (PY, pid),
                "thorough_cmd": "%s -m xv check %s --tier thorough" % (PY, pid),
                "evidence_file": "/verif/evidence/%s.json" % pid,
                "replay_cmd_template": "%s -m xv replay {path}" % PY,
                "engine": "xv",
                "level_claimed": {"category": cat, "text": text,
                                  "design_ref": ref},
                "level_note": note,
                "technique": tech,
            })
        else:
            na.append({"property_id": pid, "reason": NOT_BUILT})
    man = {
        "version": 1,
        "setup_cmd": "%s -c \"import xyzpy, sys; sys.path.insert(0, '/verif'); import xv.core\"" % PY,
        "hooks": {
            "guard": "XYZPY_VERIF",
            "enable": "no source hooks: all interposition is done at run time "
                      "by the harness on standard-library names "
                      "(builtins.open, os.*, time.sleep); PYTHONPATH=/repo",
            "baseline_off_cmd": "cd /repo && /venv/bin/python -m pytest -ra -q "
                                "-p no:cacheprovider --timeout=900 "
                                "--continue-on-collection-errors",
            "source_commits": [],
            "add_only": True,
        },
        "engines": [
            {"name": "xv", "path": "/verif/xv",
             "serves_properties": [c["property_id"] for c in checks],
             "kind_free_text": "hand-written bounded exhaustive explorers "
             "(lattice enumeration, history BFS, crash-prefix enumeration, "
             "sleep-set interleaving exploration) driving the real xyzpy code"},
        ],
        "checks": checks,
        "not_applicable": na,
        "notes": "See DESIGN.md. Known findings: known_findings.json.",
    }
    with open(os.path.join(VERIF, "MANIFEST.json"), "w") as f:
        json.dump(man, f, indent=1)
    print("MANIFEST: %d checks, %d not_applicable" % (len(checks), len(na)))


if __name__ == "__main__":
    main()
